#!/usr/bin/env python3
"""Generates /verif/SEEDED.md from /verif/seeded/*/meta.json."""
import glob
import json
import os

rows = []
ndet = 0
for f in sorted(glob.glob("/verif/seeded/C*/meta.json")):
    m = json.load(open(f))
    d = os.path.basename(os.path.dirname(f))
    notes = (m.get("needs_to_manifest") or "").strip().splitlines()
    first = next((l.strip("# ").strip() for l in notes if l.strip()), "")
    det = ", ".join(m.get("detected_by") or []) or "— (not detected)"
    ndet += bool(m.get("detected_by"))
    rows.append(f"| {d} | {m['property']} | {first[:150]} | {m['existing_tests_with_change'][:40]} | {det} |")
out = ["# Seeded changes", "",
       "Each directory `/verif/seeded/<id>-<A|B>/` holds `patch.diff` (relative to /repo HEAD " +
       "at the time), `demo.py` (exits 0 on the unchanged tree, 1 with the change), `notes.md` (what it needs to manifest) and " +
       "`meta.json` (what was run and observed). All changes were produced by sub-agents that saw only the property text and a " +
       "scratch worktree; each was confirmed in a scratch worktree (existing tests pass with it, demo fails with it, demo passes " +
       "without it) and then the listed checks were run against that worktree (`VERIF_REPO=<worktree> bin/check <id> quick`).", "",
       "| seed | property | change | existing tests with the change | detected by (quick) |", "|---|---|---|---|---|"] + rows
ben = []
for f in sorted(glob.glob("/verif/seeded/benign-*/meta.json")):
    m = json.load(open(f))
    d = os.path.basename(os.path.dirname(f))
    note = open(os.path.join(os.path.dirname(f), "notes.md")).read().strip().splitlines() if os.path.exists(os.path.join(os.path.dirname(f), "notes.md")) else [""]
    first = next((l.strip("# -").strip() for l in note if l.strip()), "")
    ben.append(f"| {d} | {first[:140]} | {', '.join(m['checks'])} | {', '.join(m['false_alarms']) or 'none'} |")
n = len(rows)
k = ndet
out += ["", f"{k} of {n} confirmed seeded changes are detected by the quick check of their own property (plus any other listed check)."]
out += ["", "## Behaviour-preserving changes (false-alarm test)", "",
        "Twelve refactorings / internal redesigns that keep every public result identical (produced by a sub-agent that saw only "
        "the library; each confirmed bit-identical on 14 433 probe observations). The quick checks of the properties anchored in "
        "the touched files were run against each (`tools/benigneval.py`): every check must exit 0.", "",
        "| change | what | checks run | false alarms |", "|---|---|---|---|"] + ben
open("/verif/SEEDED.md", "w").write("\n".join(out) + "\n")
print(f"{k}/{n} detected")
