#!/bin/sh
# Nothing to build: verifies that the tools the checks need are present (offline).
set -e
command -v java >/dev/null
test -f /opt/veriftools/tla/tla2tools.jar
/venv/bin/python -c "import sys; sys.path.insert(0, '/repo'); import genlm.grammar" 2>/dev/null
mkdir -p /verif/evidence /verif/replays /verif/.work
echo "setup ok"
