#!/usr/bin/env python3
"""tools/seedeval.py <Cxx> <A|B> [check ids...]

Confirms a seeded change produced by a sub-agent (/tmp/seed/<Cxx>/patch<X>.diff + demo<X>.py) in a scratch
worktree of /repo (tests pass with it, demo fails with it, demo passes without it), runs the given checks
(default: the property's own check) against that worktree (VERIF_REPO) and files the result under
/verif/seeded/<Cxx>-<X>/ (patch.diff, demo.py, notes.md, meta.json).  /repo itself is never modified.
"""
import json
import os
import shutil
import subprocess
import sys
import time

pid, var = sys.argv[1], sys.argv[2]
checks = sys.argv[3:] or [pid]
rnd = os.environ.get("SEED_ROUND", "")            # "" (first round) or "2": /tmp/seed2, seeded/<id>-R2<X>
src = f"/tmp/seed{rnd}/{pid}"
wt = f"/tmp/ev/{pid}{rnd}{var}"
out = f"/verif/seeded/{pid}-{'R' + rnd if rnd else ''}{var}"
tier = os.environ.get("SEED_TIER", "quick")


def sh(cmd, **kw):
    return subprocess.run(cmd, shell=True, capture_output=True, text=True, **kw)


os.makedirs("/tmp/ev", exist_ok=True)
sh(f"git -C /repo worktree remove --force {wt}")
r = sh(f"git -C /repo worktree add -q {wt} HEAD")
assert r.returncode == 0, r.stderr
env = dict(os.environ, PYTHONPATH=wt, PYTHONWARNINGS="ignore")
meta = {"property": pid, "variant": var, "repo_head": sh("git -C /repo rev-parse --short HEAD").stdout.strip()}
try:
    demo = f"{src}/demo{var}.py"
    r0 = sh(f"cd {wt} && timeout 300 /venv/bin/python {demo}", env=env)
    meta["demo_passes_without_change"] = r0.returncode == 0
    r = sh(f"git -C {wt} apply {src}/patch{var}.diff")
    assert r.returncode == 0, "patch does not apply: " + r.stderr
    r1 = sh(f"cd {wt} && timeout 300 /venv/bin/python {demo}", env=env)
    meta["demo_fails_with_change"] = r1.returncode != 0
    meta["demo_output_with_change"] = (r1.stdout + r1.stderr)[-600:]
    rt = sh(f"cd {wt} && timeout 1500 /venv/bin/python -m pytest -q -p no:cacheprovider --timeout=900 2>&1 | tail -2", env=env)
    meta["existing_tests_with_change"] = rt.stdout.strip().splitlines()[-1] if rt.stdout.strip() else rt.stderr[-200:]
    meta["tests_pass_with_change"] = " passed" in rt.stdout and "failed" not in rt.stdout and "error" not in rt.stdout.lower()
    meta["checks"] = {}
    for c in checks:
        t0 = time.time()
        e2 = dict(os.environ, VERIF_REPO=wt, VERIF_OUT=f"/tmp/ev/out-{pid}{rnd}{var}", PYTHONWARNINGS="ignore")
        rc = sh(f"cd /verif && timeout 3000 bin/check {c} {tier}", env=e2)
        lines = [l for l in rc.stdout.splitlines() if l.startswith(("VIOLATION", "OK", "MACHINERY", "KNOWN", "  "))]
        meta["checks"][c] = {"exit": rc.returncode, "detected": rc.returncode == 1, "wall_s": round(time.time() - t0, 1),
                             "first_lines": [l[:400] for l in lines[:4]]}
    meta["detected_by"] = [c for c, v in meta["checks"].items() if v["detected"]]
    meta["ran"] = f"VERIF_REPO=<scratch worktree of /repo with patch.diff applied> bin/check <id> {tier}"
    meta["confirmed"] = bool(meta["demo_passes_without_change"] and meta["demo_fails_with_change"] and meta["tests_pass_with_change"])
    if meta["confirmed"]:
        os.makedirs(out, exist_ok=True)
        shutil.copy(f"{src}/patch{var}.diff", f"{out}/patch.diff")
        shutil.copy(demo, f"{out}/demo.py")
        if os.path.exists(f"{src}/notes{var}.md"):
            shutil.copy(f"{src}/notes{var}.md", f"{out}/notes.md")
            meta["needs_to_manifest"] = open(f"{src}/notes{var}.md").read()[:1500]
        json.dump(meta, open(f"{out}/meta.json", "w"), indent=1)
    print(json.dumps({k: meta[k] for k in ("property", "variant", "confirmed", "tests_pass_with_change", "demo_fails_with_change",
                                             "demo_passes_without_change", "detected_by")}), flush=True)
    for c, v in meta["checks"].items():
        print("  ", c, v["exit"], v["wall_s"], "s", (v["first_lines"] or [""])[0][:200])
finally:
    sh(f"git -C /repo worktree remove --force {wt}")
    shutil.rmtree(f"/tmp/ev/out-{pid}{rnd}{var}", ignore_errors=True)
