#!/bin/sh
# usage: tools/runall.sh [tier] [seeds...]   - runs every registered check; prints one line per run
tier=${1:-quick}; shift || true
seeds=${@:-0}
cd "$(dirname "$0")/.."
for sd in $seeds; do
  for p in ${PROPS:-C01 C02 C03 C04 C05 C06 C07 C08 C09 C10 C11 C12 C13 C14 C15 C16 C17 C18 C19 C20}; do
    t0=$(date +%s)
    out=$(VERIF_SEED=$sd bin/check $p $tier 2>&1 | grep -v conda | grep -E "^OK|^VIOLATION|^MACHINERY|^KNOWN" | head -3 | cut -c1-260)
    echo "seed=$sd $p rc=$? $(( $(date +%s) - t0 ))s :: $out"
  done
done
