#!/bin/sh
# usage: tools/covmap.sh [tier] [ids...]  - line coverage of genlm/grammar under the registered checks (diagnostic only)
tier=${1:-quick}; shift || true
ids=${@:-C01 C02 C03 C04 C05 C06 C07 C08 C09 C10 C11 C12 C13 C14 C15 C16 C17 C18 C19 C20}
d=$(mktemp -d /tmp/verifcov.XXXXXX)
cd "$(dirname "$0")/.."
for p in $ids; do
  VERIF_COV=$d VERIF_OUT=$d/out bin/check $p $tier 2>&1 | grep -E "^OK|^VIOLATION|^MACHINERY" | head -2
done
cd $d && /venv/bin/python -m coverage combine -q --data-file=$d/.coverage $d >/dev/null 2>&1
/venv/bin/python -m coverage report --data-file=$d/.coverage -m > $d/report.txt 2>&1
cat $d/report.txt
echo "data in $d"
