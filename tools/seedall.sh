#!/bin/sh
# evaluate every seeded change present under /tmp/seed (two at a time)
cd /verif
for p in "$@"; do
  for v in A B; do
    if [ -f /tmp/seed$SEED_ROUND/$p/patch$v.diff ] && [ -f /tmp/seed$SEED_ROUND/$p/demo$v.py ]; then
      python3 tools/seedeval.py $p $v 2>&1 | tail -3
    fi
  done
done
