#!/usr/bin/env python3
"""tools/benigneval.py <k> <check ids...>: applies the behaviour-preserving change /tmp/benign/patch_<k>.diff in a scratch
worktree and runs the given quick checks against it; every check must exit 0 (no false alarm).  Files the result under
/verif/seeded/benign-<k>/."""
import json
import os
import shutil
import subprocess
import sys
import time

k = sys.argv[1]
checks = sys.argv[2:]
wt = f"/tmp/ev/benign{k}"
out = f"/verif/seeded/benign-{k}"


def sh(cmd, **kw):
    return subprocess.run(cmd, shell=True, capture_output=True, text=True, **kw)


os.makedirs("/tmp/ev", exist_ok=True)
sh(f"git -C /repo worktree remove --force {wt}")
assert sh(f"git -C /repo worktree add -q {wt} HEAD").returncode == 0
meta = {"kind": "behaviour-preserving change", "k": k, "checks": {}}
try:
    r = sh(f"git -C {wt} apply /tmp/benign/patch_{k}.diff")
    assert r.returncode == 0, r.stderr
    for c in checks:
        t0 = time.time()
        e2 = dict(os.environ, VERIF_REPO=wt, VERIF_OUT=f"/tmp/ev/out-benign{k}", PYTHONWARNINGS="ignore")
        rc = sh(f"cd /verif && timeout 3000 bin/check {c} quick", env=e2)
        lines = [l for l in rc.stdout.splitlines() if l.startswith(("VIOLATION", "OK", "MACHINERY", "KNOWN", "  "))]
        meta["checks"][c] = {"exit": rc.returncode, "wall_s": round(time.time() - t0, 1), "first_lines": [l[:300] for l in lines[:3]]}
    meta["false_alarms"] = [c for c, v in meta["checks"].items() if v["exit"] != 0]
    os.makedirs(out, exist_ok=True)
    shutil.copy(f"/tmp/benign/patch_{k}.diff", f"{out}/patch.diff")
    if os.path.exists(f"/tmp/benign/note_{k}.md"):
        shutil.copy(f"/tmp/benign/note_{k}.md", f"{out}/notes.md")
    json.dump(meta, open(f"{out}/meta.json", "w"), indent=1)
    print(json.dumps({"benign": k, "false_alarms": meta["false_alarms"]}))
    for c, v in meta["checks"].items():
        print("  ", c, v["exit"], v["wall_s"], "s", (v["first_lines"] or [""])[0][:160])
finally:
    sh(f"git -C /repo worktree remove --force {wt}")
    shutil.rmtree(f"/tmp/ev/out-benign{k}", ignore_errors=True)
