#!/usr/bin/env python3
"""Regenerates /verif/MANIFEST.json from the table below (keeps it schema-valid at all times)."""
import json
import os
import sys

HERE = os.path.dirname(os.path.dirname(os.path.abspath(__file__)))

TRUST = ("Trusted: TLC 1.8 and the CommunityModules JSON reader; the projection functions of harness/project.py "
         "(total, injective renamings); CPython/numpy. Small-scope exhaustiveness and seeded sampling are bounds, "
         "not proofs over all inputs.")

CHECKS = {
    "C02": dict(
        text=("Model checking of Earley.tla (every grammar of the pool scope x every admissible nonterminal order x every "
              "agenda tie-break: NoLatePush, item values = inside weights) plus conformance in both directions: TLC "
              "enumerates all tie-break schedules for instances taken from live parser objects and each is forced into "
              "the real next_column through a choosing heap; every recorded call of cfg(x), Earley, rescaled Earley, "
              "IncrementalCKY and materialize is judged by TLC against the derivation-sum semantics (Grammars.tla) over "
              "Sat(3), Sat(2), Bool, exact rationals and MaxTimes, under rule permutations, renamings and hash seeds."),
        ref="DESIGN.md section 6 (C02)",
        technique="TLA+ spec (Earley.tla, Grammars.tla) model-checked with TLC; trace validation of recorded calls; TLC schedules replayed into the code",
    ),
}

TV = "TLA+ reference semantics (Grammars.tla) evaluated by TLC on every recorded call of the real code (trace validation)"
TVM = TV + "; semantic core model-checked against the literal definitions (MCGrammarSem.tla) and its exhaustive family replayed into the code"
TVA = "TLA+ reference semantics (Automata.tla, GrammarCompose.tla) evaluated by TLC on every recorded call of the real code (trace validation)"
CHECKS.update({
    "C01": dict(
        text=("Every recorded BoolCFGLM(cfg, alg).p_next(ctx) call (both back-ends, Boolean and Float grammars with nullary "
              "rules, unary cycles, recursion; all contexts up to L, viable or not, and contexts containing eos) is judged "
              "by TLC: keys = {t : PrefixWeight_Bool(G, ctx.t) # 0} plus eos iff Weight_Bool(G, ctx) # 0, where "
              "PrefixWeight is the least fixed point of the prefix-inside equations (sums over the infinitely many "
              "completions exactly). The oracle itself is model-checked (prefix recurrence) on every grammar with <= 2 rules, and "
              "that family, grammars with left-corner cycles through the start symbol, two bridged unary cycles, integer "
              "vocabularies and warm LM objects are replayed into both back-ends."),
        ref="DESIGN.md section 6 (C01)", technique=TVM),
    "C03": dict(
        text=("prefix_weight, prefix_grammar (the code's output grammar is evaluated by the oracle on all prefixes), "
              "derivatives(p)[-1].treesum(), derivative(a) as a grammar and derivative(a)(y) are judged by TLC against "
              "PrefixWeight / Weight of Grammars.tla over Sat(3)/Sat(2)/Bool (cyclic grammars, infinitely many "
              "completions, exact by finiteness of the semiring) and exact rationals (finite languages). PrefixRecurrence, "
              "PrefixEmpty and PrefixBounded are model-checked on the exhaustive small family, which is also replayed."),
        ref="DESIGN.md section 6 (C03)", technique=TVM),
    "C04": dict(
        text=("p_next of EarleyLM, rescaled EarleyLM and CKYLM on warm and cold objects, lm(x eos), and the unnormalised "
              "next-token weights of the underlying parsers are judged by TLC against PrefixWeight/Weight/TreeSum of "
              "Grammars.tla: p_next(ctx)[t] = PW(ctx.t)/PW(ctx), eos gets Weight(ctx)/PW(ctx), the distribution sums to one, "
              "a non-viable context gives all zeros, lm(x eos) = Weight(x)/Z, ntw[t] = PW(ctx.t) = parser(ctx.t). Exact "
              "rationals on grammars with finitely many derivations (values the code can only produce as floats are "
              "recorded in 2^-20 fixed point and compared with the exact oracle value in two-limb integer arithmetic); "
              "Sat(3) with arbitrary recursion for the unnormalised identity. CKY.tla (incremental columns = inside weights, "
              "outside pass = weight of the one-token extension) and the closed form for deterministic right-linear proper "
              "grammars are model-checked; the latter judges contexts of 40-1500 tokens on float-weighted grammars, including "
              "contexts of probability below 1e-700 for the rescaled parser. Generation.tla models the sampling loop "
              "(LM.sample) as a state machine (Factorisation, StaysViable, CondSumsToOne, Terminates); every complete "
              "behaviour TLC finds is replayed into the real LM objects through a scripted draw and judged (SampleOK)."),
        ref="DESIGN.md section 6 (C04)",
        technique="TLA+ models CKY.tla / Generation.tla / MCGrammarSem.tla model-checked with TLC; TLC behaviours of Generation.tla replayed into LM.sample; trace validation of recorded LM calls against Grammars.tla"),
    "C05": dict(
        text=("ParserCache.tla (the cache of memoised prefixes as a state machine; PrefixClosed, OnlyClearForgets) is "
              "model-checked and its complete state graph (all histories over prefixes <= 2, both parser kinds) is walked "
              "edge by edge on real Earley, rescaled Earley, IncrementalCKY, EarleyLM, rescaled EarleyLM, CKYLM and BoolCFGLM "
              "objects; random longer histories and the purity of every query/transformation are recorded and validated by "
              "TLC (TraceParserCache.tla). A violation needs an observable witness: an answer (or the answer a cached chart "
              "will give) that differs from a fresh object's, a mutated grammar, or an exception."),
        ref="DESIGN.md section 6 (C05)",
        technique="TLA+ state machine (ParserCache.tla) model-checked; state graph replayed edge by edge into the code; trace validation of query histories"),
    "C06": dict(
        text=("Every transformation (trim, cotrim, binarize, separate_start, separate_terminals, nullaryremove with its "
              "options, unaryremove, unarycycleremove, cnf, renumber, rename, unfold) and random pipelines of 2-3 of them "
              "are run on random and hand-picked grammars; TLC evaluates Weight(out, s) = Weight(in, s) on the code's "
              "output grammar for all strings up to L, over Sat(3) (nullable x unary cycles are finite sums there), Sat(2), "
              "Bool, exact rationals and MaxTimes."),
        ref="DESIGN.md section 6 (C06)", technique=TV),
    "C07": dict(
        text=("Same recorded calls as C06; TLC evaluates the structural predicates of Grammars.tla (InCNF, "
              "NoNullaryExceptStart, NoUnary, NoUnaryCycle, ArityLeq2, StartNotOnRhs, TerminalsOnlyInPreterminals, "
              "Trimmed, CoTrimmed) on the code's output grammar; grammars with a non-generating start symbol, useless "
              "symbols, nullable and unary cycles are forced into every run."),
        ref="DESIGN.md section 6 (C07)", technique=TV),
    "C08": dict(
        text=("agenda() and naive_bottom_up() charts (every nonterminal) and expected_length are judged by TLC against the "
              "least fixed point of the grammar's polynomial system (TreeSum in Grammars.tla; expectation semiring "
              "lifting for expected length): Sat(3)/Sat(2)/Bool with arbitrary recursion, exact rationals and MaxTimes on "
              "grammars with finitely many derivations. Treesum.tla (the agenda as a state machine: every bucket numbering "
              "and every pop order; NoLateUpdate, Bounded, Final) is model-checked and every pop order is forced into the real "
              "agenda through a choosing chart; histories (evaluate, add rules, evaluate again), sub-tolerance contributions "
              "and slowly converging blocks are judged too."),
        ref="DESIGN.md section 6 (C08)",
        technique="TLA+ state machine Treesum.tla model-checked with TLC; pop orders replayed into the code; trace validation against Grammars.tla"),
    "C09": dict(
        text=("cfg @ fst, fst @ cfg (= cfg @ fst.T), cfg @ acceptor, cfg @ string, (cfg @ fst)(ys), (cfg @ xs).treesum() and "
              "truncate_length on random grammars x random transducers (epsilon input, deletion, insertion, eps:eps, cycles, "
              "several initial/final states): TLC evaluates the code's output grammar on all outputs up to L against the "
              "composition least fixed point of GrammarCompose.tla (sum over the infinitely many inputs exact in Sat(3)), and "
              "against the literal sum over inputs where the transducer cannot delete; exact rationals on acyclic inputs."),
        ref="DESIGN.md section 6 (C09)", technique=TVA),
    "C10": dict(
        text=("f @ g on random transducer pairs (epsilon on either tape, eps:eps arcs, cycles, both association branches): the "
              "composed machine's relation is judged by TLC on all string pairs up to L against the filter-product least fixed "
              "point of Automata.tla (each matching path pair once) and against the definition sum_y T1(x,y) T2(y,z) where one "
              "side is acyclic; f(x,y), cross-sections, T, project, diag, from_string, from_pairs against TWeight."),
        ref="DESIGN.md section 6 (C10)", technique=TVA),
    "C11": dict(
        text=("m(xs) for all strings up to L, epsremove (same weights, no epsilon arc) and total_weight on random automata with "
              "parallel arcs, epsilon arcs and epsilon cycles, several initial/final states: judged by TLC against the path-sum "
              "least fixed points AWeight/ATotal of Automata.tla over Sat(3)/Sat(2)/Bool (epsilon cycles exact), exact rationals "
              "MaxTimes and the non-commutative BM2 (order of multiplication along a path). MCAutomata.tla checks the oracles "
              "against each other on all 2304 two-state automata; histories on one automaton object are included."),
        ref="DESIGN.md section 6 (C11)",
        technique="TLA+ oracles model-checked (MCAutomata.tla) and evaluated by TLC on every recorded call (trace validation)"),
    "C12": dict(
        text=("Union, concatenation, star, plus, reverse, rename, renumber, spawn and the constructors lift, from_string, "
              "from_strings, zero, one (base.WFSA and field_wfsa.WFSA): the result automaton is judged by TLC on all strings up "
              "to L against the language operations of Automata.tla (sum over splits, sum over factorisations as least "
              "solution of X = 1 + A X, reversed string, exact listed language)."),
        ref="DESIGN.md section 6 (C12)", technique=TVA),
    "C13": dict(
        text=("determinize, min_det, push, trim, trim_vals: the result is judged by TLC for equal string weights on all strings "
              "up to the longest path (acyclic inputs over exact rationals: that is all strings) and for the structural "
              "postconditions Deterministic, Stochastic, TrimmedA of Automata.tla; cyclic deterministic inputs and Sat(3)/Bool "
              "for trimming; trimming the result of another operation; the library's own evaluation of the machines it "
              "builds. Determinize.tla models the subset construction as a state machine (every expansion order; "
              "OneArcPerSymbol, Residuals, PathInvariant, SameLanguage) and is model-checked on every 2-state machine of a "
              "pool; the size of the code's result is compared with the closure of weighted subsets of the pushed machine."),
        ref="DESIGN.md section 6 (C13)",
        technique="TLA+ model Determinize.tla model-checked with TLC; " + TVA),
    "C14": dict(
        text=("counterexample(), ==, hash and min of field_wfsa on random 1-3 state automata and, for each, an equal copy, a "
              "state permutation, a redundant state, a split state, a single non-integer weight change, the empty language and "
              "a random machine: TLC decides equivalence exactly over the rationals (all strings shorter than nA+nB), checks "
              "that a returned string really distinguishes with the reported weights, that equality and hashing agree, that "
              "min terminates, has as many states as the Hankel rank (Gaussian elimination in FieldWfsa.tla) and preserves "
              "the weights."),
        ref="DESIGN.md section 6 (C14)",
        technique="TLA+ decision procedures (FieldWfsa.tla: bounded equivalence, Hankel rank) evaluated by TLC on every recorded call (trace validation)",
        note=TRUST + " numpy's floating-point Gram-Schmidt/allclose decisions are outside the model; inputs are kept well conditioned."),
    "C15": dict(
        text=("closure_scc_based, closure_reference, closure(), solve_left, solve_right and blocks of WeightedGraph on random "
              "graphs (self loops, nested cycles, isolated nodes, node names of mixed types): judged by TLC against the least "
              "fixed points of Linear.tla (K = I + K A, x = xA + b, x = Ax + b) in Sat(3)/Sat(2)/Bool, exact rationals "
              "(acyclic: finite sums; cyclic contractive: unique solution by substitution) and MaxTimes; blocks must be exactly "
              "the SCCs in an edge-compatible order. Tarjan.tla (scc_decomposition with an explicit call stack) is model-checked "
              "on all 512 graphs with 3 nodes for every root and successor order, and explicit visiting orders are replayed "
              "into the real function; the non-commutative BM2 and histories on one graph object are included."),
        ref="DESIGN.md section 6 (C15)",
        technique="TLA+ state machine Tarjan.tla model-checked with TLC; visiting orders replayed into the code; trace validation against Linear.tla"),
    "C16": dict(
        text=("The semiring laws and the star law are model-checked on every triple of the model carriers (MCWeights.tla); the "
              "real +, *, star, zero, one of the 8 shipped classes (singleton and freshly constructed operands, exact and float "
              "operands) are tabulated exhaustively on those carriers and every table entry is compared by TLC with the "
              "model's operation through the abstraction function (exact; 2^-20 fixed point for Log and float operands)."),
        ref="DESIGN.md section 6 (C16)",
        technique="TLA+ model of the weight domains (Semirings.tla) with laws model-checked by TLC; exhaustive operation tables of the real classes validated against it"),
    "C17": dict(
        text=("to_cfg (left/right; also automata whose state names are alphabet symbols) judged by Weight(G,s) = AWeight(M,s); "
              "WFSA.to_bytes and CFG.to_bytes on alphabets mixing 1-4 byte characters and multi-character symbols judged by "
              "ByteWeight (UTF-8 defined arithmetically in TraceAutomata.tla) on every byte string up to L over the occurring "
              "bytes, including truncated encodings."),
        ref="DESIGN.md section 6 (C17)", technique=TVA),
    "C18": dict(
        text=("interegular_to_wfsa on random regex ASTs (literals, classes, negated classes, dot, concatenation, alternation, "
              "* + ? {m,n}, case-insensitive groups; character sets with non-ASCII characters and characters outside the "
              "pattern): the set of strings up to L with non-zero weight equals the language TLC computes from Regex.tla "
              "(cross-checked with re.fullmatch as an oracle sanity test); per-state outgoing + final mass is one, no epsilon "
              "arc."),
        ref="DESIGN.md section 6 (C18)",
        technique="TLA+ regex semantics (Regex.tla) evaluated by TLC on every recorded call (trace validation)",
        note=TRUST + " The pattern printer, interegular's parser and Python's re case table are trusted."),
    "C19": dict(
        text=("LarkStuff.char_cfg (left/right recursion) and byte_cfg on random Lark grammars (? * + |, string/regex/"
              "case-insensitive terminals, %ignore, 1-3 byte characters): the accepted texts up to L equal CharLang of Lark.tla, "
              "the accepted byte strings are exactly the UTF-8 encodings of CharLang (UTF-8 defined arithmetically in the "
              "spec), the produced grammars are also evaluated by the oracle itself on sampled strings, names of terminals "
              "and nonterminals are disjoint."),
        ref="DESIGN.md section 6 (C19)",
        technique="TLA+ Lark/regex semantics (Lark.tla, Regex.tla) evaluated by TLC on every recorded call (trace validation)",
        note=TRUST + " lark's grammar loader, interegular and the Lark/regex pretty-printer are trusted."),
    "C20": dict(
        text=("locally_normalize on exact-rational grammars (per-head sums one, total weight one, Weight'(x) * Z = "
              "Weight(x) for all x up to L) and add_EOS over all semirings (Weight(x eos) = Weight(x), zero unless "
              "exactly one trailing eos), each recorded call judged by TLC on the code's output grammar."),
        ref="DESIGN.md section 6 (C20)", technique=TV),
})

NOT_APPLICABLE = {}


def main():
    props = [json.loads(l) for l in open(os.path.join(HERE, "properties.jsonl"))]
    checks = []
    for p in props:
        pid = p["id"]
        if pid not in CHECKS:
            continue
        c = CHECKS[pid]
        checks.append({
            "property_id": pid,
            "quick_cmd": f"bin/check {pid} quick",
            "thorough_cmd": f"bin/check {pid} thorough",
            "evidence_file": f"/verif/evidence/{pid}.json",
            "replay_cmd_template": f"bin/check {pid} quick --replay {{path}}",
            "engine": "tlc-model-based",
            "level_claimed": {"category": "model_checking", "text": c["text"], "design_ref": c["ref"]},
            "level_note": c.get("note", TRUST),
            "technique": c["technique"],
        })
    na = []
    for p in props:
        pid = p["id"]
        if pid in CHECKS:
            continue
        na.append({"property_id": pid,
                   "reason": NOT_APPLICABLE.get(pid, "check under construction in this round; not claimed until its quick "
                                                "check passes on the repaired tree and its rejection self-test fails as intended")})
    m = {
        "version": 1,
        "setup_cmd": "sh tools/setup.sh",
        "hooks": {
            "guard": "GENLM_GRAMMAR_VERIF",
            "enable": "no in-source hook: the harness replaces module-level names (LocatorMaxHeap, Semiring.chart) at run time; GENLM_GRAMMAR_VERIF=1 is exported by the harness for any later hook",
            "baseline_off_cmd": "cd /repo && /venv/bin/python -m pytest -ra -q -p no:cacheprovider --timeout=900 --continue-on-collection-errors",
            "source_commits": [],
            "add_only": True,
        },
        "engines": [{
            "name": "tlc-model-based",
            "path": "/verif/bin/check",
            "serves_properties": [c["property_id"] for c in checks],
            "kind_free_text": "TLA+ specification (spec/*.tla) checked with TLC; code bound by trace validation (code->spec) and behaviour replay (spec->code)",
        }],
        "checks": checks,
        "not_applicable": na,
        "notes": "See DESIGN.md. Exit codes: 0 held, 1 VIOLATION, 2 machinery failure. VERIF_SEED seeds all random choices.",
    }
    with open(os.path.join(HERE, "MANIFEST.json"), "w") as fh:
        json.dump(m, fh, indent=1)
        fh.write("\n")
    try:
        import jsonschema
        jsonschema.validate(m, json.load(open("/root/.vp/MANIFEST.schema.json")))
        print("MANIFEST.json valid;", len(checks), "checks")
    except ImportError:
        print("MANIFEST.json written (jsonschema not importable here)")


if __name__ == "__main__":
    sys.exit(main())
