---------------------------- MODULE TraceLinear ----------------------------
(* Trace validation of WeightedGraph calls against Linear.tla (C15) and of   *)
(* semiring operations against Semirings.tla (C16).                          *)
EXTENDS Linear, Json, IOUtils

Trace == ndJsonDeserialize(IOEnv.TRACE_FILE)
NSh == 16
Has(e, f) == f \in DOMAIN e

(* K: sequence of <<i, j, w>> listing every non-zero entry *)
MatOf(sr, A, K) == [p \in Pairs(A) |->
    IF \E r \in DOMAIN K : K[r][1] = p[1] /\ K[r][2] = p[2]
    THEN K[CHOOSE r \in DOMAIN K : K[r][1] = p[1] /\ K[r][2] = p[2]][3] ELSE Zero(sr)]
VecOf(sr, A, x) == [j \in Nodes(A) |->
    IF \E r \in DOMAIN x : x[r][1] = j THEN x[CHOOSE r \in DOMAIN x : x[r][1] = j][2] ELSE Zero(sr)]

(* max-times with no edge above one: no cycle gains, the Kleene iteration stops after at most n rounds (and the     *)
(* fixed-point equation alone would not do: over an idempotent semiring it has several solutions)                  *)
NoGain(sr, A) == sr = "MaxTimes" /\ \A r \in DOMAIN A.edges : RLeq(A.edges[r][3], ROne)
ClosureOK(e) ==
  IF IsFinSR(e.sr) \/ GraphAcyclic(e.sr, e.A) \/ NoGain(e.sr, e.A)
  THEN MatOf(e.sr, e.A, e.K) = PathSum(e.sr, e.A)
  ELSE IsClosureFix(e.sr, e.A, MatOf(e.sr, e.A, e.K))      \* cyclic rationals: unique solution by substitution
SolveOK(e) ==
  LET b == VecOf(e.sr, e.A, e.b)  x == VecOf(e.sr, e.A, e.x) IN
  IF IsFinSR(e.sr) \/ GraphAcyclic(e.sr, e.A) \/ NoGain(e.sr, e.A)
  THEN x = (IF e.side = "left" THEN SolveLeft(e.sr, e.A, b) ELSE SolveRight(e.sr, e.A, b))
  ELSE x = (IF e.side = "left" THEN LStep(e.sr, e.A, b, x) ELSE RStep(e.sr, e.A, b, x))
BlocksEvOK(e) == BlocksOK(e.sr, e.A, [k \in DOMAIN e.blocks |-> SetOf(e.blocks[k])])

(* semiring operation tables (C16): the recorded result of the real operator equals the model's *)
SrOK(e) ==
  CASE e.fn = "add" -> WEq2(e.sr, Add(e.sr, e.a, e.b), e.res)
    [] e.fn = "mul" -> WEq2(e.sr, Mul(e.sr, e.a, e.b), e.res)
    [] e.fn = "star" -> WEq2(e.sr, Star(e.sr, e.a), e.res)
    [] e.fn = "zero" -> WEq2(e.sr, Zero(e.sr), e.res)
    [] e.fn = "one" -> WEq2(e.sr, One(e.sr), e.res)

(* ---- Chart algebra (genlm/grammar/chart.py): a chart is a sequence of <<key, value>> with distinct keys; ---- *)
(* ---- a missing key is the semiring zero                                                                 ---- *)
CGet(sr, c, k) == IF \E i \in DOMAIN c : c[i][1] = k THEN c[CHOOSE i \in DOMAIN c : c[i][1] = k][2] ELSE Zero(sr)
CKeys(c) == {c[i][1] : i \in DOMAIN c}
CSame(sr, c, d) == \A k \in CKeys(c) \cup CKeys(d) : WEq2(sr, CGet(sr, c, k), CGet(sr, d, k))
ChartOK(e) ==
  LET sr == e.sr  a == e.a IN
  CASE e.fn = "add" -> \A k \in CKeys(a) \cup CKeys(e.b) \cup CKeys(e.out) :
                          WEq2(sr, Add(sr, CGet(sr, a, k), CGet(sr, e.b, k)), CGet(sr, e.out, k))
    [] e.fn = "mul" -> \A k \in CKeys(a) \cup CKeys(e.b) \cup CKeys(e.out) :
                          WEq2(sr, Mul(sr, CGet(sr, a, k), CGet(sr, e.b, k)), CGet(sr, e.out, k))
    [] e.fn = "product" -> WEq2(sr, ProdSeq(sr, [i \in DOMAIN e.ks |-> CGet(sr, a, e.ks[i])]), e.res)
    [] e.fn = "trim" -> /\ \A k \in CKeys(a) \cup CKeys(e.out) : WEq2(sr, CGet(sr, a, k), CGet(sr, e.out, k))
                        /\ \A i \in DOMAIN e.out : e.out[i][2] # Zero(sr)
    [] e.fn = "sum" -> WEq2(sr, SumSeq(sr, [i \in DOMAIN a |-> a[i][2]]), e.res)
    [] e.fn = "normalize" ->       \* each value divided by the total (rationals); unchanged when the total is zero
          LET Z == SumSeq(sr, [i \in DOMAIN a |-> a[i][2]]) IN
          \A k \in CKeys(a) \cup CKeys(e.out) :
             WEq2(sr, IF Z = Zero(sr) THEN CGet(sr, a, k) ELSE RDiv(CGet(sr, a, k), Z), CGet(sr, e.out, k))
    [] e.fn = "project" ->         \* keys mapped through e.map (sequence of <<old, new>>), weights of merged keys add up
          \A k \in {e.map[i][2] : i \in DOMAIN e.map} \cup CKeys(e.out) :
             WEq2(sr, SumSeq(sr, [i \in DOMAIN e.map |-> IF e.map[i][2] = k THEN CGet(sr, a, e.map[i][1]) ELSE Zero(sr)]),
                  CGet(sr, e.out, k))
    [] e.fn = "filter" -> \A k \in CKeys(a) \cup CKeys(e.out) :
             WEq2(sr, IF k \in SetOf(e.keep) THEN CGet(sr, a, k) ELSE Zero(sr), CGet(sr, e.out, k))

Failed(e) ==
  IF Has(e, "exc") THEN {"raised"}
  ELSE CASE e.op = "closure" -> IF ClosureOK(e) THEN {} ELSE {"closure"}
         [] e.op = "solve" -> IF SolveOK(e) THEN {} ELSE {"solve"}
         [] e.op = "blocks" -> IF BlocksEvOK(e) THEN {} ELSE {"blocks"}
         [] e.op = "semiring" -> IF SrOK(e) THEN {} ELSE {"table"}
         [] e.op = "chart" -> IF ChartOK(e) THEN {} ELSE {"chart"}

VARIABLES sh, l
Init == sh \in 0 .. (NSh - 1) /\ l = sh + 1
Next == /\ l <= Len(Trace)
        /\ TLCSet(7, 0)                   \* set by Semirings.tla when the oracle's arithmetic leaves the 32-bit range
        /\ LET e == Trace[l]
               f == Failed(e)
           IN IF f = {} THEN (IF TLCGet(7) = 0 THEN TRUE ELSE PrintT(<<"REJECT", e.tid, {"OUTSKIP"}>>))
              ELSE PrintT(<<"REJECT", e.tid, IF TLCGet(7) = 0 THEN f ELSE f \cup {"OUTSKIP"}>>)
        /\ l' = l + NSh
        /\ sh' = sh
=============================================================================
