------------------------------ MODULE Linear ------------------------------
(***************************************************************************)
(* Algebraic path problems on a weighted graph (genlm/grammar/linear.py).  *)
(* A graph is [n, edges]: nodes 0 .. n-1, edges a sequence of <<i, j, w>>  *)
(* (parallel entries add up).                                              *)
(*                                                                         *)
(* PathSum[i, j] is the total weight of all paths from i to j (the sum of  *)
(* all powers of the weight matrix): the least solution of K = I + K A.    *)
(***************************************************************************)
EXTENDS Semirings

Nodes(A) == 0 .. (A.n - 1)
W(sr, A, i, j) == SumSeq(sr, [r \in DOMAIN A.edges |->
                     IF A.edges[r][1] = i /\ A.edges[r][2] = j THEN A.edges[r][3] ELSE Zero(sr)])
Pairs(A) == {<<i, j>> : i \in Nodes(A), j \in Nodes(A)}

KStep(sr, A, K) ==
  [p \in Pairs(A) |->
     Add(sr, IF p[1] = p[2] THEN One(sr) ELSE Zero(sr),
         SumSeq(sr, [r \in DOMAIN A.edges |->
            IF A.edges[r][2] = p[2] THEN Mul(sr, K[<<p[1], A.edges[r][1]>>], A.edges[r][3]) ELSE Zero(sr)]))]
RECURSIVE KLfp(_, _, _)
KLfp(sr, A, K) == LET nx == KStep(sr, A, K) IN IF nx = K THEN K ELSE KLfp(sr, A, nx)
PathSum(sr, A) == KLfp(sr, A, [p \in Pairs(A) |-> Zero(sr)])
IsClosureFix(sr, A, K) == KStep(sr, A, K) = K

(* x = x A + b  and  x = A x + b : least solutions *)
LStep(sr, A, b, x) ==
  [j \in Nodes(A) |-> Add(sr, b[j], SumSeq(sr, [r \in DOMAIN A.edges |->
       IF A.edges[r][2] = j THEN Mul(sr, x[A.edges[r][1]], A.edges[r][3]) ELSE Zero(sr)]))]
RStep(sr, A, b, x) ==
  [i \in Nodes(A) |-> Add(sr, b[i], SumSeq(sr, [r \in DOMAIN A.edges |->
       IF A.edges[r][1] = i THEN Mul(sr, A.edges[r][3], x[A.edges[r][2]]) ELSE Zero(sr)]))]
RECURSIVE LLfp(_, _, _, _)
LLfp(sr, A, b, x) == LET nx == LStep(sr, A, b, x) IN IF nx = x THEN x ELSE LLfp(sr, A, b, nx)
RECURSIVE RLfp(_, _, _, _)
RLfp(sr, A, b, x) == LET nx == RStep(sr, A, b, x) IN IF nx = x THEN x ELSE RLfp(sr, A, b, nx)
SolveLeft(sr, A, b) == LLfp(sr, A, b, [j \in Nodes(A) |-> Zero(sr)])
SolveRight(sr, A, b) == RLfp(sr, A, b, [j \in Nodes(A) |-> Zero(sr)])

(* strongly connected components *)
(* an edge is a pair of nodes whose entries add up to a non-zero weight (signed entries may cancel) *)
Edges(sr, A) == {p \in {<<A.edges[r][1], A.edges[r][2]>> : r \in DOMAIN A.edges} : W(sr, A, p[1], p[2]) # Zero(sr)}
ReachL(E, S0) ==
  LET RECURSIVE Grow(_)
      Grow(S) == LET nx == S \cup {e[2] : e \in {e \in E : e[1] \in S}} IN IF nx = S THEN S ELSE Grow(nx)
  IN Grow(S0)
SCCof(sr, A, v) == {u \in Nodes(A) : u \in ReachL(Edges(sr, A), {v}) /\ v \in ReachL(Edges(sr, A), {u})}
SCCs(sr, A) == {SCCof(sr, A, v) : v \in Nodes(A)}
GraphAcyclic(sr, A) == \A e \in Edges(sr, A) : e[1] \notin ReachL(Edges(sr, A), {e[2]})

(* blocks: a sequence of sets of nodes.  Exactly the SCCs, and for every edge i -> j the block of i *)
(* is listed no later than the block of j                                                            *)
BlockOf(blocks, v) == CHOOSE k \in DOMAIN blocks : v \in blocks[k]
BlocksOK(sr, A, blocks) ==
  /\ {blocks[k] : k \in DOMAIN blocks} = SCCs(sr, A)
  /\ Len(blocks) = Cardinality(SCCs(sr, A))
  /\ \A e \in Edges(sr, A) : BlockOf(blocks, e[1]) <= BlockOf(blocks, e[2])
=============================================================================
