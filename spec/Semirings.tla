---------------------------- MODULE Semirings ----------------------------
(***************************************************************************)
(* Weight domains of the genlm-grammar model (DESIGN.md 3.1).              *)
(*                                                                         *)
(* A semiring is named by a string `sr'; every operator takes it as its    *)
(* first argument.                                                         *)
(*                                                                         *)
(*   "Bool"            {0,1}                 = Sat(1): the library Boolean *)
(*   "Sat2", "Sat3"    0..C, saturating      finite quotient of N-infinity *)
(*   "Rat"             reduced <<n, d>>      library Float/Real on exact   *)
(*                                           (Fraction) inputs             *)
(*   "MaxTimes"        reduced <<n, d>> >= 0 Viterbi semiring (max, x)     *)
(*   "MaxPlus"         <<0>> (= -infinity) or <<1, k>> (integer k)         *)
(*   "Expect"          << <<n,d>>, <<n,d>> >> expectation semiring pairs   *)
(*                                                                         *)
(* Finite semirings are closed: every countable sum exists and Kleene      *)
(* iteration of a monotone system reaches its least fixed point in         *)
(* finitely many steps, so TLC computes infinite derivation / path sums    *)
(* exactly.                                                                *)
(***************************************************************************)
EXTENDS Integers, Sequences, FiniteSets, TLC

IntSR == {"Bool", "Sat2", "Sat3"}
IsIntSR(sr) == sr \in IntSR
(* "BM2": 2x2 Boolean matrices <<a, b, c, d>> = [[a, b], [c, d]] with (or, matrix product): a finite, closed,   *)
(* idempotent and NON-COMMUTATIVE semiring; path weights must be multiplied in path order to be right in it.   *)
FiniteSR == IntSR \cup {"BM2"}
IsFinSR(sr) == sr \in FiniteSR
Or(x, y) == IF x + y > 0 THEN 1 ELSE 0
BMul(x, y) == <<Or(x[1] * y[1], x[2] * y[3]), Or(x[1] * y[2], x[2] * y[4]),
                Or(x[3] * y[1], x[4] * y[3]), Or(x[3] * y[2], x[4] * y[4])>>
BAdd(x, y) == <<Or(x[1], y[1]), Or(x[2], y[2]), Or(x[3], y[3]), Or(x[4], y[4])>>
BOne == <<1, 0, 0, 1>>
Cap(sr) == CASE sr = "Bool" -> 1 [] sr = "Sat2" -> 2 [] sr = "Sat3" -> 3

Abs(n) == IF n < 0 THEN -n ELSE n
RECURSIVE GCD(_, _)
GCD(a, b) == IF b = 0 THEN a ELSE GCD(b, a % b)

(* rationals: <<n, d>> with d > 0, gcd(|n|, d) = 1 *)
RNorm(n, d) ==
  IF n = 0 THEN <<0, 1>>
  ELSE LET s == IF d < 0 THEN -1 ELSE 1
           g == GCD(Abs(n), Abs(d))
       IN <<(s * n) \div g, (s * d) \div g>>
(* TLC integers are 32 bit.  An operation whose exact result (or an intermediate product) would leave that  *)
(* range yields NaR, "not a representable rational", which every later operation propagates; it also sets    *)
(* register 7 of the evaluating worker, which the trace specifications reset before and read after each      *)
(* line: a line whose oracle value is NaR is reported as OUTSKIP (counted, not judged), never accepted and    *)
(* never a TLC overflow error.                                                                               *)
MaxInt == 2147483647
NaR == <<1, 0>>
IsNaR(a) == a[2] = 0
Fits(x, y) == x = 0 \/ y = 0 \/ Abs(x) <= MaxInt \div Abs(y)
Over(x) == IF TLCSet(7, 1) THEN NaR ELSE NaR        \* (takes an argument so that TLC does not evaluate it once at start-up)
RAdd(a, b) == IF IsNaR(a) \/ IsNaR(b) THEN NaR
              ELSE IF a[1] = 0 THEN b ELSE IF b[1] = 0 THEN a
              ELSE IF a[2] = b[2] THEN (IF Abs(a[1]) <= MaxInt - Abs(b[1]) THEN RNorm(a[1] + b[1], a[2]) ELSE Over(a))
              ELSE LET g == GCD(a[2], b[2])          \* least common denominator keeps 32-bit ints small
                       p == b[2] \div g
                       q == a[2] \div g
                   IN IF Fits(a[1], p) /\ Fits(b[1], q) /\ Fits(q, b[2])
                      THEN (IF Abs(a[1] * p) <= MaxInt - Abs(b[1] * q) THEN RNorm(a[1] * p + b[1] * q, q * b[2]) ELSE Over(a))
                      ELSE Over(a)
RNeg(a) == <<-a[1], a[2]>>
RSub(a, b) == RAdd(a, RNeg(b))
RMul(a, b) == IF IsNaR(a) \/ IsNaR(b) THEN NaR
              ELSE IF a[1] = 0 \/ b[1] = 0 THEN <<0, 1>>
              ELSE LET g1 == GCD(Abs(a[1]), b[2])  g2 == GCD(Abs(b[1]), a[2])
                       n1 == a[1] \div g1  n2 == b[1] \div g2  d1 == a[2] \div g2  d2 == b[2] \div g1
                   IN IF Fits(n1, n2) /\ Fits(d1, d2) THEN <<n1 * n2, d1 * d2>> ELSE Over(a)
RInv(a) == IF IsNaR(a) THEN NaR ELSE IF a[1] < 0 THEN <<-a[2], -a[1]>> ELSE <<a[2], a[1]>>      \* a # 0
RDiv(a, b) == RMul(a, RInv(b))
RLeq(a, b) == IF IsNaR(a) \/ IsNaR(b) THEN TRUE
              ELSE LET g == GCD(a[2], b[2]) p == b[2] \div g q == a[2] \div g
                   IN IF Fits(a[1], p) /\ Fits(b[1], q) THEN a[1] * p <= b[1] * q ELSE TLCSet(7, 1)
RLt(a, b) == IF IsNaR(a) \/ IsNaR(b) THEN TRUE
             ELSE LET g == GCD(a[2], b[2]) p == b[2] \div g q == a[2] \div g
                  IN IF Fits(a[1], p) /\ Fits(b[1], q) THEN a[1] * p < b[1] * q ELSE TLCSet(7, 1)
RZero == <<0, 1>>
ROne == <<1, 1>>

---------------------------------------------------------------------------
(* Values the code can only produce as floats (division by a total weight, *)
(* numpy linear algebra) are recorded in fixed point: <<m, FxScale, 0>>    *)
(* stands for a number within FxTol/FxScale of m/FxScale.  The exact       *)
(* oracle value <<n, d>> is compared with it WITHOUT rounding the oracle:  *)
(* |n * FxScale - m * d| <= FxTol * d, in two-limb arithmetic because TLC  *)
(* integers are 32 bit.                                                    *)
FxScale == 1048576                 \* 2^20
FxTol == 2
LB == 32768                        \* limb base 2^15
LB2 == 1073741824                  \* 2^30
IsFx(v) == Len(v) = 3
(* a * b for 0 <= a, b < 2^30 as <<hi, lo>> = hi * 2^30 + lo, 0 <= lo < 2^30 *)
Mul2(a, b) ==
  LET a1 == a \div LB  a0 == a % LB  b1 == b \div LB  b0 == b % LB
      mid == a1 * b0 + a0 * b1
      lof == a0 * b0 + (mid % LB) * LB
  IN <<a1 * b1 + (mid \div LB) + (lof \div LB2), lof % LB2>>
(* |x - y| <= t for two-limb x, y and 0 <= t < 2^29 *)
Near2(x, y, t) ==
  LET dh == x[1] - y[1]  dl == x[2] - y[2]
  IN CASE dh = 0 -> Abs(dl) <= t
       [] dh = 1 -> dl <= t - LB2
       [] dh = -1 -> -dl <= t - LB2
       [] OTHER -> FALSE
FxInRange(want) == Abs(want[1]) < LB2 /\ want[2] < LB2 \div 8
ApproxEq(want, m) ==
  IF (want[1] < 0) # (m < 0) /\ want[1] # 0 /\ m # 0 THEN Abs(m) <= FxTol /\ FALSE
  ELSE Near2(Mul2(Abs(want[1]), FxScale), Mul2(Abs(m), want[2]), FxTol * want[2])
(* equality of an oracle rational with a recorded value (exact pair or fixed point) *)
REq(want, have) == IF IsNaR(want) THEN FALSE
                   ELSE IF IsFx(have) THEN (IF FxInRange(want) THEN ApproxEq(want, have[1]) ELSE TLCSet(7, 1) /\ FALSE)
                   ELSE want = have

Zero(sr) == CASE sr \in IntSR -> 0
              [] sr = "BM2" -> <<0, 0, 0, 0>>
              [] sr \in {"Rat", "MaxTimes"} -> RZero
              [] sr = "MaxPlus" -> <<0>>
              [] sr = "Expect" -> <<RZero, RZero>>
One(sr) ==  CASE sr \in IntSR -> 1
              [] sr = "BM2" -> BOne
              [] sr \in {"Rat", "MaxTimes"} -> ROne
              [] sr = "MaxPlus" -> <<1, 0>>
              [] sr = "Expect" -> <<ROne, RZero>>

Add(sr, a, b) ==
  CASE sr \in IntSR -> LET c == Cap(sr) IN IF a + b > c THEN c ELSE a + b
    [] sr = "BM2" -> BAdd(a, b)
    [] sr = "Rat" -> RAdd(a, b)
    [] sr = "MaxTimes" -> IF RLeq(a, b) THEN b ELSE a
    [] sr = "MaxPlus" -> IF a = <<0>> THEN b ELSE IF b = <<0>> THEN a
                         ELSE IF a[2] <= b[2] THEN b ELSE a
    [] sr = "Expect" -> <<RAdd(a[1], b[1]), RAdd(a[2], b[2])>>

Mul(sr, a, b) ==
  CASE sr \in IntSR -> LET c == Cap(sr) IN IF a * b > c THEN c ELSE a * b
    [] sr = "BM2" -> BMul(a, b)
    [] sr \in {"Rat", "MaxTimes"} -> RMul(a, b)
    [] sr = "MaxPlus" -> IF a = <<0>> \/ b = <<0>> THEN <<0>> ELSE <<1, a[2] + b[2]>>
    [] sr = "Expect" -> <<RMul(a[1], b[1]), RAdd(RMul(a[1], b[2]), RMul(b[1], a[2]))>>

(* star(x) = sum_k x^k; defined where the series converges *)
StarDefined(sr, a) ==
  CASE sr \in FiniteSR -> TRUE
    [] sr = "Rat" -> RLt(a, ROne) /\ RLt(<<-1, 1>>, a)
    [] sr = "MaxTimes" -> RLeq(a, ROne)
    [] sr = "MaxPlus" -> a = <<0>> \/ a[2] <= 0
    [] sr = "Expect" -> RLt(a[1], ROne) /\ RLt(<<-1, 1>>, a[1])
Star(sr, a) ==
  CASE sr \in IntSR -> IF a = 0 THEN 1 ELSE Cap(sr)
    [] sr = "BM2" -> BAdd(BOne, BAdd(a, BMul(a, a)))
    [] sr = "Rat" -> RInv(RSub(ROne, a))
    [] sr = "MaxTimes" -> ROne
    [] sr = "MaxPlus" -> <<1, 0>>
    [] sr = "Expect" -> LET ps == RInv(RSub(ROne, a[1])) IN <<ps, RMul(RMul(ps, a[2]), ps)>>

IsZero(sr, a) == a = Zero(sr)

(* recorded value `have' is the oracle value `want' (fixed-point tolerance for recorded floats) *)
WEq(sr, want, have) == IF sr \in {"Rat", "MaxTimes"} THEN REq(want, have) ELSE want = have

(* multiplicative inverse, fields only (and the positive part of MaxTimes) *)
Inv(sr, a) == CASE sr \in {"Rat", "MaxTimes"} -> RInv(a)
                [] sr = "Bool" -> a

(* the same for every model domain: pairs of rationals are compared componentwise *)
WEq2(sr, want, have) ==
  CASE sr \in {"Rat", "MaxTimes"} -> REq(want, have)
    [] sr = "Expect" -> REq(want[1], have[1]) /\ REq(want[2], have[2])
    [] OTHER -> want = have

(* the carrier sets used by model checking configurations *)
Carrier(sr) ==
  CASE sr \in IntSR -> 0 .. Cap(sr)
    [] sr = "BM2" -> {<<x1, x2, x3, x4>> : x1 \in 0 .. 1, x2 \in 0 .. 1, x3 \in 0 .. 1, x4 \in 0 .. 1}
    [] sr \in {"Rat", "MaxTimes"} ->
         {RNorm(n, d) : n \in 0 .. 3, d \in 1 .. 3}
    [] sr = "MaxPlus" -> {<<0>>} \cup {<<1, k>> : k \in -2 .. 2}
    [] sr = "Expect" -> {<<p, r>> : p \in {RNorm(n, d) : n \in 0 .. 2, d \in 1 .. 2},
                                   r \in {RNorm(n, d) : n \in 0 .. 2, d \in 1 .. 2}}

(* folds *)
RECURSIVE SumSeq(_, _)
SumSeq(sr, q) == IF q = <<>> THEN Zero(sr) ELSE Add(sr, Head(q), SumSeq(sr, Tail(q)))
RECURSIVE ProdSeq(_, _)
ProdSeq(sr, q) == IF q = <<>> THEN One(sr) ELSE Mul(sr, Head(q), ProdSeq(sr, Tail(q)))
RECURSIVE SumOver(_, _, _)
SumOver(sr, S, f) == IF S = {} THEN Zero(sr)
                    ELSE LET x == CHOOSE x \in S : TRUE IN Add(sr, f[x], SumOver(sr, S \ {x}, f))
RECURSIVE SumRange(_, _, _, _)
SumRange(sr, f, lo, hi) == IF lo > hi THEN Zero(sr) ELSE Add(sr, f[lo], SumRange(sr, f, lo + 1, hi))

SetOf(q) == {q[i] : i \in DOMAIN q}

(* all sequences over S of length <= n *)
RECURSIVE Strs(_, _)
Strs(S, n) == IF n = 0 THEN {<<>>}
              ELSE LET P == Strs(S, n - 1)
                   IN P \cup {Append(s, a) : s \in {s \in P : Len(s) = n - 1}, a \in S}

=============================================================================
