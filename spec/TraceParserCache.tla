------------------------- MODULE TraceParserCache -------------------------
(***************************************************************************)
(* Trace validation of query histories on real parser / LM objects against *)
(* ParserCache.tla.  One line per call; the projected cache (its keys) is  *)
(* logged before and after the call, so every line is validated on its own *)
(* as one step  cache = before  --Action(q, p)-->  cache' = after.         *)
(***************************************************************************)
EXTENDS Naturals, Sequences, FiniteSets, TLC, Json, IOUtils

Trace == ndJsonDeserialize(IOEnv.TRACE_FILE)
NSh == 16
SetOf(q) == {q[i] : i \in DOMAIN q}
Pre(p, k) == SubSeq(p, 1, k)
Closure(p) == {Pre(p, k) : k \in 0 .. Len(p)}

StepOK(e) ==
  LET before == SetOf(e.before)  after == SetOf(e.after)  p == e.p
  IN CASE e.q \in {"chart", "pnext", "lm_pnext"} -> after = before \cup Closure(p)
       [] e.q = "call" -> after = (IF p = <<>> /\ e.kind = "earley" THEN before
                                   ELSE before \cup Closure(p))
       [] e.q = "lmcall" -> \E j \in 0 .. Len(p) : after = before \cup Closure(Pre(p, j))
       [] e.q = "clear" -> after = {}
       [] e.q = "transform" -> TRUE

Failed(e) ==
  IF "exc" \in DOMAIN e THEN {"raised"}
  ELSE (IF StepOK(e) THEN {} ELSE {"keys"})
       \cup {f \in {"shared", "content", "frozen", "same", "pure"} : f \in DOMAIN e /\ e[f] # TRUE}

VARIABLES sh, l
Init == sh \in 0 .. (NSh - 1) /\ l = sh + 1
Next == /\ l <= Len(Trace)
        /\ TLCSet(7, 0)                   \* set by Semirings.tla when the oracle's arithmetic leaves the 32-bit range
        /\ LET e == Trace[l]
               f == Failed(e)
           IN IF f = {} THEN (IF TLCGet(7) = 0 THEN TRUE ELSE PrintT(<<"REJECT", e.tid, {"OUTSKIP"}>>))
              ELSE PrintT(<<"REJECT", e.tid, IF TLCGet(7) = 0 THEN f ELSE f \cup {"OUTSKIP"}>>)
        /\ l' = l + NSh
        /\ sh' = sh
=============================================================================
