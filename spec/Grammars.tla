----------------------------- MODULE Grammars -----------------------------
(***************************************************************************)
(* Reference semantics of weighted context-free grammars (DESIGN.md 3.2).  *)
(* Nothing here transcribes an algorithm of the library: the weight of a   *)
(* string is the least solution of the inside equations, which is the sum  *)
(* over derivation trees of the product of rule weights.                   *)
(*                                                                         *)
(* A grammar is a record [S, V, rules]:                                    *)
(*    S      start symbol (a string)                                       *)
(*    V      sequence of terminal symbols (strings)                        *)
(*    rules  SEQUENCE of [w, h, b]  (weight, head, body); duplicates count *)
(* A symbol is a nonterminal iff it is not in V (as CFG.is_nonterminal):   *)
(* nonterminals without rules exist and have weight zero.                  *)
(***************************************************************************)
EXTENDS Semirings

TermSet(G) == SetOf(G.V)
BodySyms(G) == UNION {SetOf(G.rules[r].b) : r \in DOMAIN G.rules}
Heads(G) == {G.rules[r].h : r \in DOMAIN G.rules}
NTs(G) == (Heads(G) \cup {G.S} \cup BodySyms(G)) \ TermSet(G)
IsNT(G, y) == y \notin TermSet(G)

---------------------------------------------------------------------------
(* Inside chart of a string s: least fixed point over items <<X,i,k>>.     *)

Sym(sr, T, s, ch, y, i, k) ==
  IF y \notin T THEN ch[<<y, i, k>>]
  ELSE IF k = i + 1 /\ s[k] = y THEN One(sr) ELSE Zero(sr)

RECURSIVE BodySum(_, _, _, _, _, _, _)
BodySum(sr, T, s, ch, body, i, k) ==
  IF body = <<>> THEN (IF i = k THEN One(sr) ELSE Zero(sr))
  ELSE IF Len(body) = 1 THEN Sym(sr, T, s, ch, body[1], i, k)
  ELSE SumRange(sr, [j \in i .. k |->
          LET a == Sym(sr, T, s, ch, body[1], i, j)
          IN IF a = Zero(sr) THEN a ELSE Mul(sr, a, BodySum(sr, T, s, ch, Tail(body), j, k))],
        i, k)

Items(N, n) == {<<X, i, k>> : X \in N, i \in 0 .. n, k \in 0 .. n}

InsideStep(sr, G, T, N, s, ch) ==
  [it \in Items(N, Len(s)) |->
     IF it[2] > it[3] THEN Zero(sr)
     ELSE SumSeq(sr, [r \in DOMAIN G.rules |->
            IF G.rules[r].h = it[1]
            THEN Mul(sr, G.rules[r].w, BodySum(sr, T, s, ch, G.rules[r].b, it[2], it[3]))
            ELSE Zero(sr)])]

RECURSIVE InsideLfp(_, _, _, _, _, _)
InsideLfp(sr, G, T, N, s, ch) ==
  LET nx == InsideStep(sr, G, T, N, s, ch) IN IF nx = ch THEN ch ELSE InsideLfp(sr, G, T, N, s, nx)

Inside(sr, G, s) ==
  LET T == TermSet(G)  N == NTs(G)
  IN InsideLfp(sr, G, T, N, s, [it \in Items(N, Len(s)) |-> Zero(sr)])

(* weight of string s under G: semiring sum over all derivation trees *)
Weight(sr, G, s) == Inside(sr, G, s)[<<G.S, 0, Len(s)>>]

(* weight of deriving s from an arbitrary symbol X (terminal or not) *)
WeightFrom(sr, G, X, s) ==
  IF X \in TermSet(G) THEN (IF s = <<X>> THEN One(sr) ELSE Zero(sr))
  ELSE IF X \notin NTs(G) THEN Zero(sr)
  ELSE Inside(sr, G, s)[<<X, 0, Len(s)>>]

---------------------------------------------------------------------------
(* Total weight of every nonterminal: least solution of the polynomial     *)
(* system  Z[X] = sum_{X -> beta} w * prod Z[beta_j]  (terminals count 1). *)

Tot(sr, T, ts, y) == IF y \notin T THEN ts[y] ELSE One(sr)
RECURSIVE TotSeq(_, _, _, _)
TotSeq(sr, T, ts, q) == IF q = <<>> THEN One(sr)
                        ELSE Mul(sr, Tot(sr, T, ts, Head(q)), TotSeq(sr, T, ts, Tail(q)))

TreeStep(sr, G, T, N, t) ==
  [X \in N |-> SumSeq(sr, [r \in DOMAIN G.rules |->
      IF G.rules[r].h = X THEN Mul(sr, G.rules[r].w, TotSeq(sr, T, t, G.rules[r].b))
      ELSE Zero(sr)])]
RECURSIVE TreeLfp(_, _, _, _, _)
TreeLfp(sr, G, T, N, t) ==
  LET nx == TreeStep(sr, G, T, N, t) IN IF nx = t THEN t ELSE TreeLfp(sr, G, T, N, nx)
TreeSum(sr, G) ==
  LET T == TermSet(G)  N == NTs(G) IN TreeLfp(sr, G, T, N, [X \in N |-> Zero(sr)])

(* t is a solution of the system (used where Kleene iteration does not     *)
(* terminate: rational weights with recursion)                             *)
IsTreeFixpoint(sr, G, t) == TreeStep(sr, G, TermSet(G), NTs(G), t) = t

---------------------------------------------------------------------------
(* Prefix weight: total weight of all strings that begin with p.  Written  *)
(* as its own least fixed point (prefix-inside equations), independent of  *)
(* the transducer composition the library uses.  pre[<<X,i>>] = weight of  *)
(* X deriving something that starts at position i and covers p[i+1..n]     *)
(* and then continues arbitrarily.                                         *)

PreSym(sr, T, p, pre, y, i) ==
  IF y \notin T THEN pre[<<y, i>>]
  ELSE IF i = Len(p) - 1 /\ p[i + 1] = y THEN One(sr) ELSE Zero(sr)

RECURSIVE PreBody(_, _, _, _, _, _, _, _)
PreBody(sr, T, p, ins, ts, pre, q, i) ==
  IF q = <<>> THEN Zero(sr)
  ELSE LET y == Head(q)
           n == Len(p)
           endHere == Mul(sr, PreSym(sr, T, p, pre, y, i), TotSeq(sr, T, ts, Tail(q)))
           goOn == SumRange(sr, [j \in i .. (n - 1) |->
                      LET a == Sym(sr, T, p, ins, y, i, j)
                      IN IF a = Zero(sr) THEN a
                         ELSE Mul(sr, a, PreBody(sr, T, p, ins, ts, pre, Tail(q), j))], i, n - 1)
       IN Add(sr, endHere, goOn)

PItems(N, n) == {<<X, i>> : X \in N, i \in 0 .. (n - 1)}
PreStep(sr, G, T, N, p, ins, ts, pre) ==
  [it \in PItems(N, Len(p)) |->
     SumSeq(sr, [r \in DOMAIN G.rules |->
        IF G.rules[r].h = it[1]
        THEN Mul(sr, G.rules[r].w, PreBody(sr, T, p, ins, ts, pre, G.rules[r].b, it[2]))
        ELSE Zero(sr)])]
RECURSIVE PreLfp(_, _, _, _, _, _, _, _)
PreLfp(sr, G, T, N, p, ins, ts, pre) ==
  LET nx == PreStep(sr, G, T, N, p, ins, ts, pre)
  IN IF nx = pre THEN pre ELSE PreLfp(sr, G, T, N, p, ins, ts, nx)

(* with a supplied total-weight vector ts (lets rational recursion use the  *)
(* exact solution instead of Kleene iteration)                              *)
PrefixWeightTs(sr, G, ts, p) ==
  LET T == TermSet(G)  N == NTs(G) IN
  IF p = <<>> THEN ts[G.S]
  ELSE LET ins == Inside(sr, G, p)
       IN PreLfp(sr, G, T, N, p, ins, ts, [it \in PItems(N, Len(p)) |-> Zero(sr)])[<<G.S, 0>>]
PrefixWeight(sr, G, p) == PrefixWeightTs(sr, G, TreeSum(sr, G), p)

---------------------------------------------------------------------------
(* Domain of the exact oracles.  Over a finite semiring every fixed point  *)
(* above is reached.  Over the rationals Kleene iteration terminates iff   *)
(* the dependency it follows is acyclic on the support.                    *)

Generating(G) ==          \* symbols deriving some terminal string (support only)
  LET T == TermSet(G)
      RECURSIVE Grow(_)
      Grow(S) == LET nx == S \cup {G.rules[r].h : r \in {r \in DOMAIN G.rules :
                                       SetOf(G.rules[r].b) \subseteq S}}
                 IN IF nx = S THEN S ELSE Grow(nx)
  IN Grow(T)
NullableSyms(G) ==        \* nonterminals deriving the empty string (support only)
  LET RECURSIVE Grow(_)
      Grow(S) == LET nx == S \cup {G.rules[r].h : r \in {r \in DOMAIN G.rules :
                                       SetOf(G.rules[r].b) \subseteq S}}
                 IN IF nx = S THEN S ELSE Grow(nx)
  IN Grow({})
Reach(E, S0) ==           \* nodes reachable from S0 by >= 0 edges of E (set of pairs)
  LET RECURSIVE Grow(_)
      Grow(S) == LET nx == S \cup {e[2] : e \in {e \in E : e[1] \in S}}
                 IN IF nx = S THEN S ELSE Grow(nx)
  IN Grow(S0)
HasCycle(E) == \E e \in E : e[1] \in Reach(E, {e[2]})

(* X ->> Y "with the same span": X -> alpha Y beta, alpha and beta nullable *)
SpanEdges(G) ==
  LET nl == NullableSyms(G)
      gen == Generating(G)
      T == TermSet(G)
  IN UNION {LET b == G.rules[r].b IN
            {<<G.rules[r].h, b[j]>> : j \in {j \in DOMAIN b :
                 /\ b[j] \notin T
                 /\ SetOf(b) \subseteq gen
                 /\ \A m \in DOMAIN b : m # j => b[m] \in nl}}
            : r \in DOMAIN G.rules}
DepEdges(G) ==
  LET gen == Generating(G)
      T == TermSet(G)
  IN UNION {LET b == G.rules[r].b IN
            {<<G.rules[r].h, b[j]>> : j \in {j \in DOMAIN b : b[j] \notin T /\ SetOf(b) \subseteq gen}}
            : r \in DOMAIN G.rules}

InsideExact(sr, G) == IsFinSR(sr) \/ ~HasCycle(SpanEdges(G))
TreeSumExact(sr, G) == IsFinSR(sr) \/ ~HasCycle(DepEdges(G))

---------------------------------------------------------------------------
(* Deterministic right-linear proper grammars (rules X -> t Y and X -> eps, at most one rule per (X, t), the rule   *)
(* weights of every head sum to one, every nonterminal can terminate).  Every nonterminal then has total weight    *)
(* one, a context determines one state, and the next-token distribution is a function of that state alone:         *)
(*     p(t | ctx) = w  if  StateAfter(ctx) -> t Y has weight w,     p(eos | ctx) = weight of StateAfter(ctx) -> eps *)
(* This closed form is what lets contexts of HUNDREDS of tokens be judged (the inside oracle is cubic); MCGrammarSem *)
(* checks it against PrefixWeight on short contexts.                                                                *)
IsRLRule(G, r) == LET b == G.rules[r].b IN b = <<>> \/ (Len(b) = 2 /\ b[1] \in TermSet(G) /\ b[2] \notin TermSet(G))
DetRL(G) ==
  /\ \A r \in DOMAIN G.rules : IsRLRule(G, r)
  /\ \A r1, r2 \in DOMAIN G.rules :
        (r1 # r2 /\ G.rules[r1].h = G.rules[r2].h /\ G.rules[r1].b # <<>> /\ G.rules[r2].b # <<>>)
           => G.rules[r1].b[1] # G.rules[r2].b[1]
ProperRL(sr, G) ==
  /\ \A X \in Heads(G) : SumSeq(sr, [r \in DOMAIN G.rules |-> IF G.rules[r].h = X THEN G.rules[r].w ELSE Zero(sr)]) = One(sr)
  /\ NTs(G) \subseteq (Heads(G) \cap Generating(G))
DEAD == "!dead"
RLStep(G, X, t) ==
  IF X = DEAD THEN DEAD
  ELSE IF \E r \in DOMAIN G.rules : G.rules[r].h = X /\ G.rules[r].b # <<>> /\ G.rules[r].b[1] = t
       THEN G.rules[CHOOSE r \in DOMAIN G.rules : G.rules[r].h = X /\ G.rules[r].b # <<>> /\ G.rules[r].b[1] = t].b[2]
       ELSE DEAD
RECURSIVE StateAfterFrom(_, _, _, _)
StateAfterFrom(G, X, ctx, i) == IF i > Len(ctx) THEN X ELSE StateAfterFrom(G, RLStep(G, X, ctx[i]), ctx, i + 1)
StateAfter(G, ctx) == StateAfterFrom(G, G.S, ctx, 1)
RLNext(sr, G, X, t) ==          \* t = "" stands for end-of-sequence
  IF X = DEAD THEN Zero(sr)
  ELSE SumSeq(sr, [r \in DOMAIN G.rules |->
         IF G.rules[r].h = X /\ ((t = "" /\ G.rules[r].b = <<>>) \/ (t # "" /\ G.rules[r].b # <<>> /\ G.rules[r].b[1] = t))
         THEN G.rules[r].w ELSE Zero(sr)])

---------------------------------------------------------------------------
(* The weighted language up to a length bound, as a set of <<string, w>>.  *)
Lang(sr, G, L) ==
  {<<s, Weight(sr, G, s)>> : s \in {s \in Strs(TermSet(G), L) : Weight(sr, G, s) # Zero(sr)}}

(* two grammars over the same terminals agree on all strings up to L *)
SameWeights(sr, G1, G2, Sigma, L) == \A s \in Strs(Sigma, L) : Weight(sr, G1, s) = Weight(sr, G2, s)

---------------------------------------------------------------------------
(* Structural predicates (C07).                                            *)

Rule(G, r) == G.rules[r]
IsNullary(G, r) == G.rules[r].b = <<>>
IsUnary(G, r) == Len(G.rules[r].b) = 1 /\ IsNT(G, G.rules[r].b[1])
UnaryEdges(G) == {<<G.rules[r].h, G.rules[r].b[1]>> : r \in {r \in DOMAIN G.rules : IsUnary(G, r)}}

InCNF(G) == \A r \in DOMAIN G.rules :
  LET b == G.rules[r].b IN
  \/ b = <<>> /\ G.rules[r].h = G.S
  \/ Len(b) = 1 /\ ~IsNT(G, b[1])
  \/ Len(b) = 2 /\ IsNT(G, b[1]) /\ IsNT(G, b[2]) /\ b[1] # G.S /\ b[2] # G.S
NoNullaryExceptStart(G) == \A r \in DOMAIN G.rules : IsNullary(G, r) => G.rules[r].h = G.S
NoUnary(G) == \A r \in DOMAIN G.rules : ~IsUnary(G, r)
NoUnaryCycle(G) == ~HasCycle(UnaryEdges(G))
ArityLeq2(G) == \A r \in DOMAIN G.rules : Len(G.rules[r].b) <= 2
StartNotOnRhs(G) == G.S \notin BodySyms(G)
TerminalsOnlyInPreterminals(G) == \A r \in DOMAIN G.rules :
  LET b == G.rules[r].b IN (\E j \in DOMAIN b : ~IsNT(G, b[j])) => Len(b) = 1

(* every symbol of every rule is reachable from S and derives a terminal string *)
ReachableSyms(G) ==
  Reach(UNION {{<<G.rules[r].h, y>> : y \in SetOf(G.rules[r].b)} : r \in DOMAIN G.rules}, {G.S})
Trimmed(G) ==
  LET gen == Generating(G)
      rch == ReachableSyms(G)
  IN \A r \in DOMAIN G.rules :
       (SetOf(G.rules[r].b) \cup {G.rules[r].h}) \subseteq (gen \cap rch)
CoTrimmed(G) ==
  LET gen == Generating(G)
  IN \A r \in DOMAIN G.rules : (SetOf(G.rules[r].b) \cup {G.rules[r].h}) \subseteq gen
NoZeroRule(sr, G) == \A r \in DOMAIN G.rules : G.rules[r].w # Zero(sr)
=============================================================================
