------------------------------- MODULE Regex -------------------------------
(***************************************************************************)
(* Reference semantics of the supported regular-expression syntax (C18).   *)
(* A regex is a record tree:                                               *)
(*   [t |-> "lit", c]  [t |-> "cls", cs]  [t |-> "ncls", cs]  [t |-> "dot"] *)
(*   [t |-> "cat", l, r]  [t |-> "alt", l, r]  [t |-> "star"|"plus"|"opt", e] *)
(*   [t |-> "rep", e, m, n]      e{m,n}                                    *)
(*   [t |-> "ci", e]             (?i: e )  case-insensitive group          *)
(* Characters are strings (names).  Negated classes and the dot are        *)
(* interpreted relative to the character set cs.  `fold' maps a character  *)
(* to the set of characters equal to it ignoring case.                     *)
(* RxM(re, s, i, k) <=> re matches s[i+1 .. k].                              *)
(***************************************************************************)
EXTENDS Naturals, Sequences, FiniteSets, TLC

SetOfQ(q) == {q[i] : i \in DOMAIN q}
RECURSIVE RxStrs(_, _)
RxStrs(S, n) == IF n = 0 THEN {<<>>}
                ELSE LET P == RxStrs(S, n - 1) IN P \cup {Append(s, a) : s \in {s \in P : Len(s) = n - 1}, a \in S}

(* fold: sequence of <<c, <<equivalents>>>> *)
CaseSet(fold, c) == IF \E i \in DOMAIN fold : fold[i][1] = c
                    THEN SetOfQ(fold[CHOOSE i \in DOMAIN fold : fold[i][1] = c][2]) \cup {c}
                    ELSE {c}
SameChar(fold, ci, c, x) == IF ci THEN x \in CaseSet(fold, c) ELSE x = c

RECURSIVE RxM(_, _, _, _, _, _, _)
RxM(re, s, i, k, cs, fold, ci) ==
  CASE re.t = "lit"  -> k = i + 1 /\ SameChar(fold, ci, re.c, s[k])
    [] re.t = "cls"  -> k = i + 1 /\ \E c \in SetOfQ(re.cs) : SameChar(fold, ci, c, s[k])
    [] re.t = "ncls" -> k = i + 1 /\ s[k] \in cs /\ ~\E c \in SetOfQ(re.cs) : SameChar(fold, ci, c, s[k])
    [] re.t = "dot"  -> k = i + 1 /\ s[k] \in cs
    [] re.t = "cat"  -> \E j \in i .. k : RxM(re.l, s, i, j, cs, fold, ci) /\ RxM(re.r, s, j, k, cs, fold, ci)
    [] re.t = "alt"  -> RxM(re.l, s, i, k, cs, fold, ci) \/ RxM(re.r, s, i, k, cs, fold, ci)
    [] re.t = "opt"  -> i = k \/ RxM(re.e, s, i, k, cs, fold, ci)
    [] re.t = "star" -> i = k \/ \E j \in (i + 1) .. k : RxM(re.e, s, i, j, cs, fold, ci) /\ RxM(re, s, j, k, cs, fold, ci)
    [] re.t = "plus" -> RxM(re.e, s, i, k, cs, fold, ci)
                        \/ \E j \in (i + 1) .. (k - 1) : RxM(re.e, s, i, j, cs, fold, ci) /\ RxM(re, s, j, k, cs, fold, ci)
    [] re.t = "rep"  -> IF re.n = 0 THEN i = k
                        ELSE (re.m = 0 /\ i = k)
                             \/ \E j \in i .. k : RxM(re.e, s, i, j, cs, fold, ci)
                                   /\ RxM([t |-> "rep", e |-> re.e, m |-> IF re.m = 0 THEN 0 ELSE re.m - 1, n |-> re.n - 1],
                                        s, j, k, cs, fold, ci)
    [] re.t = "ci"   -> RxM(re.e, s, i, k, cs, fold, TRUE)

RxLang(re, cs, fold, L) == {s \in RxStrs(cs, L) : RxM(re, s, 0, Len(s), cs, fold, FALSE)}
=============================================================================
