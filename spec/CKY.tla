-------------------------------- MODULE CKY --------------------------------
(***************************************************************************)
(* IncrementalCKY (genlm/grammar/parse/cky.py) as a state machine over a   *)
(* grammar in Chomsky normal form:                                         *)
(*   Extend(tok)   extend_chart: the new column k is computed from the     *)
(*                 cached columns 0 .. k-1 and the token                   *)
(* and the outside pass next_token_weights as an operator on the state.    *)
(*                                                                         *)
(* Checked for every CNF grammar of a small pool and every token sequence: *)
(*   ColumnsAreInside     cols[k][i][X] = Inside(G, prefix)[X, i, k]       *)
(*   NextTokenIsExtension next_token_weights(prefix)[w] = Weight(prefix.w) *)
(* (the identity that makes the CKY language model the left-to-right       *)
(* factorisation when G is a prefix grammar, C04).                         *)
(***************************************************************************)
EXTENDS Grammars, FiniteSetsExt, SequencesExt

CONSTANTS MAXRULES, MAXLEN, WEIGHTS, SRNAME

NT == {"S", "A", "B"}
TM == {"a", "b"}
sr == SRNAME
Pool == {[w |-> w, h |-> h, b |-> <<t>>] : w \in WEIGHTS, h \in NT, t \in TM}
        \cup {[w |-> w, h |-> h, b |-> <<y, z>>] : w \in WEIGHTS, h \in NT, y \in {"A", "B"}, z \in {"A", "B"}}
        \cup {[w |-> w, h |-> "S", b |-> <<>>] : w \in WEIGHTS}
RuleSets == UNION {kSubset(j, Pool) : j \in 1 .. MAXRULES}

VARIABLES g, pre, cols
vars == <<g, pre, cols>>

Nullary(G) == SumSeq(sr, [r \in DOMAIN G.rules |-> IF G.rules[r].b = <<>> THEN G.rules[r].w ELSE Zero(sr)])
TermW(G, X, tok) == SumSeq(sr, [r \in DOMAIN G.rules |->
                       IF G.rules[r].h = X /\ G.rules[r].b = <<tok>> THEN G.rules[r].w ELSE Zero(sr)])

(* column 0: tmp[0][0][S] = nullary *)
Col0(G) == [i \in {0} |-> [X \in NT |-> IF X = "S" THEN Nullary(G) ELSE Zero(sr)]]

(* extend_chart(chart, prefix) with k = Len(prefix): new[i] for i = k-1 down to 0, new[k][S] = nullary *)
RECURSIVE NewCol(_, _, _, _, _)
NewCol(G, cs, k, tok, i) ==
  \* returns the function  j \in i .. k |-> [X |-> value]
  IF i = k THEN [j \in {k} |-> [X \in NT |-> IF X = "S" THEN Nullary(G) ELSE Zero(sr)]]
  ELSE LET above == NewCol(G, cs, k, tok, i + 1)
           row == [X \in NT |->
                    Add(sr, IF i = k - 1 THEN TermW(G, X, tok) ELSE Zero(sr),
                        SumRange(sr, [j \in (i + 1) .. (k - 1) |->
                           SumSeq(sr, [r \in DOMAIN G.rules |->
                              LET ru == G.rules[r] IN
                              IF ru.h = X /\ Len(ru.b) = 2
                              THEN Mul(sr, Mul(sr, ru.w, cs[j][i][ru.b[1]]), above[j][ru.b[2]])
                              ELSE Zero(sr)])], i + 1, k - 1))]
       IN [j \in i .. k |-> IF j = i THEN row ELSE above[j]]

Init == /\ \E rs \in RuleSets : g = [S |-> "S", V |-> <<"a", "b">>, rules |-> SetToSeq(rs)]
        /\ pre = <<>>
        /\ cols = <<Col0(g)>>          \* cols[k + 1] is the column for position k
Extend(tok) == /\ Len(pre) < MAXLEN
               /\ pre' = Append(pre, tok)
               /\ cols' = Append(cols, NewCol(g, [k \in 0 .. Len(pre) |-> cols[k + 1]], Len(pre) + 1, tok, 0))
               /\ UNCHANGED g
Next == \E tok \in TM : Extend(tok)
Spec == Init /\ [][Next]_vars

ColumnsAreInside ==
  LET ins == Inside(sr, g, pre) IN
  \A k \in 0 .. Len(pre) : \A i \in DOMAIN cols[k + 1] : \A X \in NT :
     (i < k \/ X = "S") => cols[k + 1][i][X] = (IF X \in NTs(g) THEN ins[<<X, i, k>>] ELSE Zero(sr))

(* next_token_weights(chart, prefix): the outside pass *)
RECURSIVE Alpha(_, _, _)
Alpha(G, cs, j) ==       \* function 0 .. j |-> [X |-> outside weight of (X, j, k)]
  IF j = 0 THEN [m \in {0} |-> [X \in NT |-> IF X = "S" THEN One(sr) ELSE Zero(sr)]]
  ELSE LET below == Alpha(G, cs, j - 1)
           row == [Z \in NT |->
                    SumRange(sr, [i \in 0 .. (j - 1) |->
                       SumSeq(sr, [r \in DOMAIN G.rules |->
                          LET ru == G.rules[r] IN
                          IF Len(ru.b) = 2 /\ ru.b[2] = Z
                          THEN Mul(sr, Mul(sr, ru.w, cs[j][i][ru.b[1]]), below[i][ru.h])
                          ELSE Zero(sr)])], 0, j - 1)]
       IN [m \in 0 .. j |-> IF m = j THEN row ELSE below[m]]
NextTokenWeights(G, cs, n) ==
  LET al == Alpha(G, cs, n)[n]
  IN [w \in TM |-> SumSeq(sr, [r \in DOMAIN G.rules |->
        IF G.rules[r].b = <<w>> THEN Mul(sr, G.rules[r].w, al[G.rules[r].h]) ELSE Zero(sr)])]
NextTokenIsExtension ==
  LET cs == [k \in 0 .. Len(pre) |-> cols[k + 1]]
      q == NextTokenWeights(g, cs, Len(pre))
  IN \A w \in TM : q[w] = Weight(sr, g, Append(pre, w))
=============================================================================
