--------------------------- MODULE SemiringsTest ---------------------------
(* Unit checks of the arithmetic helpers (evaluated by TLC as ASSUMEs).    *)
EXTENDS Semirings

ASSUME RAdd(<<1, 2>>, <<1, 3>>) = <<5, 6>>
ASSUME RMul(<<2, 3>>, <<3, 4>>) = <<1, 2>>
ASSUME RSub(<<1, 2>>, <<1, 2>>) = <<0, 1>>
ASSUME RDiv(<<1, 2>>, <<1, 4>>) = <<2, 1>>
ASSUME RLt(<<1, 3>>, <<1, 2>>) /\ ~RLt(<<1, 2>>, <<1, 2>>) /\ RLeq(<<1, 2>>, <<1, 2>>)
ASSUME Mul2(1000000000, 1000000000) = <<931322574, 660865024>>      \* 10^18 = 931322574 * 2^30 + 660865024
ASSUME Mul2(3, 5) = <<0, 15>>
ASSUME ApproxEq(<<1, 3>>, 349525)          \* round(2^20 / 3)
ASSUME ApproxEq(<<1, 3>>, 349527) /\ ~ApproxEq(<<1, 3>>, 349529) /\ ~ApproxEq(<<1, 3>>, 349521)
ASSUME ApproxEq(<<0, 1>>, 0) /\ ApproxEq(<<0, 1>>, 2) /\ ~ApproxEq(<<0, 1>>, 3)
ASSUME ApproxEq(<<123456789, 100000007>>, 1294538)   \* 1.23456780... * 2^20 = 1294538.4
ASSUME ~ApproxEq(<<123456789, 100000007>>, 1294548)
ASSUME ApproxEq(<<-1, 3>>, -349525) /\ ~ApproxEq(<<-1, 3>>, 349525)
ASSUME REq(<<1, 3>>, <<1, 3>>) /\ ~REq(<<1, 3>>, <<2, 3>>) /\ REq(<<1, 3>>, <<349525, 1048576, 0>>)
ASSUME Add("Sat3", 2, 2) = 3 /\ Mul("Sat3", 2, 2) = 3 /\ Star("Sat3", 0) = 1 /\ Star("Sat3", 1) = 3
ASSUME Add("Bool", 1, 1) = 1 /\ Mul("Bool", 1, 0) = 0
ASSUME Star("Rat", <<1, 2>>) = <<2, 1>>
ASSUME Add("MaxTimes", <<1, 2>>, <<1, 3>>) = <<1, 2>>
ASSUME Mul("Expect", <<<<1, 2>>, <<1, 1>>>>, <<<<1, 2>>, <<0, 1>>>>) = <<<<1, 4>>, <<1, 2>>>>
ASSUME Strs({"a", "b"}, 2) = {<<>>, <<"a">>, <<"b">>, <<"a", "a">>, <<"a", "b">>, <<"b", "a">>, <<"b", "b">>}
VARIABLE x
Init == x = 0
Next == x' = x
=========================================================================(* arithmetic that would leave the 32-bit range yields NaR, which propagates and is never equal to a recorded value *)
ASSUME RMul(<<1, 65536>>, <<1, 65536>>) = NaR
ASSUME RMul(<<3, 65536>>, <<65536, 5>>) = <<3, 5>>
ASSUME RAdd(<<2147483647, 1>>, <<1, 1>>) = NaR
ASSUME RAdd(<<1, 1073741824>>, <<1, 3>>) = NaR
ASSUME RAdd(NaR, <<1, 3>>) = NaR /\ RMul(<<0, 1>>, <<1, 3>>) = <<0, 1>> /\ RMul(NaR, <<1, 3>>) = NaR /\ RInv(NaR) = NaR
ASSUME ~REq(NaR, <<1, 2>>) /\ ~REq(NaR, <<349525, 1048576, 0>>)
ASSUME RLeq(<<1, 1073741824>>, <<1, 3>>)            \* the cross product fits: 3 <= 2^30
====
