------------------------------ MODULE DetCore ------------------------------
(***************************************************************************)
(* Weighted subsets and the successor step of Mohri's determinisation,     *)
(* shared by the state machine Determinize.tla and by the trace            *)
(* specification (which compares the size of the code's result with the    *)
(* closure computed here).  Exact rationals.                               *)
(***************************************************************************)
EXTENDS Automata, FiniteSets

(* a weighted subset is a set of <<state, weight>> pairs with distinct states and non-zero weights *)
DSupport(Q) == {e[1] : e \in Q}
DValOf(Q, q) == IF q \in DSupport(Q) THEN (CHOOSE e \in Q : e[1] = q)[2] ELSE RZero
DSumVals(Q) == SumOver("Rat", Q, [e \in Q |-> e[2]])
DArcW(M, p, a, q) == SumSeq("Rat", [r \in DOMAIN M.arcs |-> IF M.arcs[r][1] = p /\ M.arcs[r][2] = a /\ M.arcs[r][3] = q
                                                       THEN M.arcs[r][4] ELSE RZero])
DUnnorm(M, P, a) ==
  {e \in {<<j, SumOver("Rat", P, [e \in P |-> RMul(e[2], DArcW(M, e[1], a, j))])>> : j \in St(M)} : e[2] # RZero}
DNormal(U) == LET W == DSumVals(U) IN {<<e[1], RDiv(e[2], W)>> : e \in U}
DStart(M) == {<<q, WI("Rat", M, q)>> : q \in {q \in St(M) : WI("Rat", M, q) # RZero}}
DLabels(M) == {M.arcs[r][2] : r \in DOMAIN M.arcs}
DSuccs(M, P) == {<<a, DUnnorm(M, P, a)>> : a \in {a \in DLabels(M) : DUnnorm(M, P, a) # {}}}

(* the closure as a function: all subsets reachable from the start subset (stops once more than k were found) *)
RECURSIVE DClose(_, _, _, _)
DClose(M, vis, pend, k) ==
  IF pend = {} \/ Cardinality(vis) > k THEN vis
  ELSE LET P == CHOOSE P \in pend : TRUE
           fresh == {DNormal(s[2]) : s \in DSuccs(M, P)} \ vis
       IN DClose(M, vis \cup fresh, (pend \ {P}) \cup fresh, k)
DetSubsets(M, k) == DClose(M, {DStart(M)}, {DStart(M)}, k)
=============================================================================
