--------------------------- MODULE TraceGrammar ---------------------------
(***************************************************************************)
(* Trace validation of grammar-level calls of the real code (DESIGN 4.2).  *)
(* Every line of the ndjson trace is one API call recorded at its return;  *)
(* it is accepted iff it is a step the specification allows.  Pure calls   *)
(* are one-step behaviours whose post-state is fixed by the reference      *)
(* semantics of Grammars.tla, evaluated here by TLC.                       *)
(*                                                                         *)
(* Verdicts are total: a rejected line prints <<"REJECT", tid, clause>>    *)
(* and the chain goes on.  NSh independent chains use all workers.         *)
(***************************************************************************)
EXTENDS Grammars, Json, IOUtils

Trace == ndJsonDeserialize(IOEnv.TRACE_FILE)
NSh == 16

Has(e, f) == f \in DOMAIN e

(* ---- clauses: each returns TRUE iff the event satisfies it ------------ *)

ParseOK(e) == WEq(e.sr, Weight(e.sr, e.G, e.s), e.res)

PrefixOK(e) == WEq(e.sr, PrefixWeight(e.sr, e.G, e.s), e.res)

(* chart: sequence of <<X, value>> covering every nonterminal of G *)
TreesumOK(e) ==
  LET ts == TreeSum(e.sr, e.G)
      given == {e.chart[i][1] : i \in DOMAIN e.chart}
  IN /\ NTs(e.G) \subseteq given
     /\ \A i \in DOMAIN e.chart :
          LET X == e.chart[i][1] IN
          IF X \in NTs(e.G) THEN WEq(e.sr, ts[X], e.chart[i][2]) ELSE e.chart[i][2] = Zero(e.sr)

(* rational weights with recursion: the recorded chart must solve the      *)
(* system exactly and dominate every Kleene iterate (least solution of a   *)
(* system whose solution is unique on the generator's family)              *)
TreesumFixOK(e) ==
  LET N == NTs(e.G)
      given == {e.chart[i][1] : i \in DOMAIN e.chart}
      tv == [X \in N |-> e.chart[CHOOSE i \in DOMAIN e.chart : e.chart[i][1] = X][2]]
  IN N \subseteq given /\ IsTreeFixpoint(e.sr, e.G, tv)

PostOK(sr, G, name) ==
  CASE name = "cnf" -> InCNF(G)
    [] name = "nonullary" -> NoNullaryExceptStart(G)
    [] name = "nounary" -> NoUnary(G)
    [] name = "nounarycycle" -> NoUnaryCycle(G)
    [] name = "arity2" -> ArityLeq2(G)
    [] name = "startoff" -> StartNotOnRhs(G)
    [] name = "preterminal" -> TerminalsOnlyInPreterminals(G)
    [] name = "trimmed" -> Trimmed(G)
    [] name = "cotrimmed" -> CoTrimmed(G)
    [] name = "nozero" -> NoZeroRule(sr, G)

(* transformation: same weighted language + structural postconditions *)
TransformWeightsOK(e) == SameWeights(e.sr, e.in, e.out, SetOf(e.sigma), e.L)
TransformPostsOK(e) == \A i \in DOMAIN e.posts : PostOK(e.sr, e.out, e.posts[i])
FailedPosts(e) == {e.posts[i] : i \in {i \in DOMAIN e.posts : ~PostOK(e.sr, e.out, e.posts[i])}}

(* out(y) = in(pre . y) for all y up to L  (derivatives) *)
DerivativeOK(e) ==
  \A y \in Strs(SetOf(e.sigma), e.L) : Weight(e.sr, e.out, y) = Weight(e.sr, e.in, e.pre \o y)

(* out(p) = PrefixWeight(in, p) for all p up to L (prefix grammar) *)
PrefixGrammarOK(e) ==
  \A p \in Strs(SetOf(e.sigma), e.L) : Weight(e.sr, e.out, p) = PrefixWeight(e.sr, e.in, p)

(* materialize(L): exactly the non-zero strings of length <= L with their weights *)
LangOK(e) ==
  Lang(e.sr, e.G, e.L) = {<<e.entries[i][1], e.entries[i][2]>> : i \in DOMAIN e.entries}

(* Boolean LM mask: tokens t with ctx.t completable, EOS iff ctx complete; *)
(* G is the grammar WITHOUT end-of-sequence, eos its name                  *)
MaskWant(e) ==
  IF e.eos \in SetOf(e.ctx) THEN {}
  ELSE {t \in TermSet(e.G) : PrefixWeight("Bool", e.G, Append(e.ctx, t)) # 0}
       \cup (IF Weight("Bool", e.G, e.ctx) # 0 THEN {e.eos} ELSE {})
MaskOK(e) == SetOf(e.keys) = MaskWant(e)

(* add_EOS: out(x.eos) = in(x); zero unless exactly one trailing eos *)
AddEosOK(e) ==
  \A s \in Strs(SetOf(e.sigma) \cup {e.eos}, e.L) :
     LET n == Len(s) IN
     IF n >= 1 /\ s[n] = e.eos /\ e.eos \notin SetOf(SubSeq(s, 1, n - 1))
     THEN Weight(e.sr, e.out, s) = Weight(e.sr, e.in, SubSeq(s, 1, n - 1))
     ELSE Weight(e.sr, e.out, s) = Zero(e.sr)

(* locally_normalize over exact rationals: per-head sums are one (heads of  *)
(* positive total weight), total weight one, weights divided by Z           *)
HeadSum(sr, G, X) == SumSeq(sr, [r \in DOMAIN G.rules |->
                        IF G.rules[r].h = X THEN G.rules[r].w ELSE Zero(sr)])
NormalizeOK(e) ==
  LET Z == TreeSum(e.sr, e.in)
  IN Z[e.in.S] # Zero(e.sr) =>       \* the property is about grammars with positive total weight
     /\ \A X \in Heads(e.out) : HeadSum(e.sr, e.out, X) = One(e.sr)
     /\ TreeSum(e.sr, e.out)[e.out.S] = One(e.sr)
     /\ \A s \in Strs(SetOf(e.sigma), e.L) :
           Mul(e.sr, Weight(e.sr, e.out, s), Z[e.in.S]) = Weight(e.sr, e.in, s)

(* p_next over exact rationals, unnormalised weights ntw and normalised dist *)
(* dist: sequence of <<token, value>> with every token of V (+eos) listed    *)
PNextOK(e) ==
  LET pw == PrefixWeight(e.sr, e.G, e.ctx)
      val(t) == IF t = e.eos THEN Weight(e.sr, e.G, e.ctx)
                ELSE PrefixWeight(e.sr, e.G, Append(e.ctx, t))
  IN \A i \in DOMAIN e.dist :
        LET t == e.dist[i][1]  v == e.dist[i][2] IN
        IF pw = Zero(e.sr) \/ e.eos \in SetOf(e.ctx) THEN WEq(e.sr, Zero(e.sr), v)
        ELSE WEq(e.sr, RDiv(val(t), pw), v)
PNextSumOK(e) ==
  LET pw == PrefixWeight(e.sr, e.G, e.ctx)
  IN (pw # Zero(e.sr) /\ e.eos \notin SetOf(e.ctx) /\ \A i \in DOMAIN e.dist : ~IsFx(e.dist[i][2]))
       => SumSeq(e.sr, [i \in DOMAIN e.dist |-> e.dist[i][2]]) = One(e.sr)
NtwOK(e) ==       \* unnormalised: weight of ctx.t under the prefix semantics
  \A i \in DOMAIN e.dist :
      LET t == e.dist[i][1]  v == e.dist[i][2] IN
      WEq(e.sr, (IF e.eos \in SetOf(e.ctx) THEN Zero(e.sr)
                 ELSE IF t = e.eos THEN Weight(e.sr, e.G, e.ctx)
                 ELSE PrefixWeight(e.sr, e.G, Append(e.ctx, t))), v)

(* chain rule: P(x . eos) * Z = weight(x) *)
LmCallOK(e) ==
  LET Z == TreeSum(e.sr, e.G)[e.G.S]
  IN IF Z = Zero(e.sr) THEN WEq(e.sr, Zero(e.sr), e.res)
     ELSE WEq(e.sr, RDiv(Weight(e.sr, e.G, e.s), Z), e.res)

(* LM.sample with a scripted draw (Generation.tla): every draw is made from the exact conditional distribution   *)
(* (value and support), drawn tokens are appended in order, and the returned probability is Weight(ys) / Z       *)
SampleOK(e) ==
  LET Z == TreeSum(e.sr, e.G)[e.G.S]
      n == Len(e.steps)
      before(i) == SubSeq(e.ys, 1, i - 1)
      tok(i) == e.steps[i][1]
      pw(p) == PrefixWeight(e.sr, e.G, p)
      cond(p, y) == IF y = e.eos THEN RDiv(Weight(e.sr, e.G, p), pw(p)) ELSE RDiv(pw(Append(p, y)), pw(p))
      toks == SetOf(e.G.V) \cup {e.eos}
  IN /\ Z # Zero(e.sr)
     /\ n <= Len(e.ys) + 1
     /\ \A i \in 1 .. n : pw(before(i)) # Zero(e.sr)
     /\ \A i \in 1 .. n : /\ WEq(e.sr, cond(before(i), tok(i)), e.steps[i][2])
                            /\ SetOf(e.steps[i][3]) = {y \in toks : cond(before(i), y) # Zero(e.sr)}
                            /\ (tok(i) # e.eos => i <= Len(e.ys) /\ e.ys[i] = tok(i))
                            /\ (tok(i) = e.eos => i = Len(e.ys) + 1)
     /\ WEq(e.sr, RDiv(Weight(e.sr, e.G, e.ys), Z), e.res)
(* conformance only (no listed property speaks of max_tokens): the loop generates at most max_tokens + 1 tokens *)
SampleBoundOK(e) == e.bound = -1 \/ Len(e.ys) <= e.bound + 1

(* expected_length: total weight-weighted string length = second component of the total weight of  *)
(* the grammar lifted to the expectation semiring (rule weight <w, w * number of terminals in body>) *)
LiftExpect(G) ==
  [S |-> G.S, V |-> G.V,
   rules |-> [r \in DOMAIN G.rules |->
      LET b == G.rules[r].b
          nt == Cardinality({j \in DOMAIN b : b[j] \in TermSet(G)})
      IN [w |-> <<G.rules[r].w, RMul(G.rules[r].w, <<nt, 1>>)>>, h |-> G.rules[r].h, b |-> b]]]
ExpLenOK(e) == REq(TreeSum("Expect", LiftExpect(e.G))[e.G.S][2], e.res)

(* LM.p_next_seq(ctx, ext) = product of the conditionals = PW(ctx.ext) / PW(ctx) *)
PNextSeqOK(e) ==
  LET pw == PrefixWeight(e.sr, e.G, e.ctx) IN
  IF pw = Zero(e.sr) THEN WEq(e.sr, Zero(e.sr), e.res)
  ELSE WEq(e.sr, RDiv(PrefixWeight(e.sr, e.G, e.ctx \o e.ext), pw), e.res)
(* map_values(f, R): same rules, weights mapped; here f is the support map into Bool *)
SupportOf(G) == [S |-> G.S, V |-> G.V, rules |-> [r \in DOMAIN G.rules |-> [w |-> 1, h |-> G.rules[r].h, b |-> G.rules[r].b]]]
MapBoolOK(e) == \A s \in Strs(SetOf(e.sigma), e.L) :       \* (no shipped semiring has zero divisors or cancellation)
                   Weight("Bool", e.out, s) = Weight("Bool", SupportOf(e.in), s)

(* p_next on a long context of a deterministic right-linear proper grammar: the closed form of Grammars.tla *)
PNextRLOK(e) ==
  LET X == StateAfter(e.G, e.ctx) IN
  \A i \in DOMAIN e.dist :
     LET t == e.dist[i][1] IN
     WEq(e.sr, RLNext(e.sr, e.G, X, IF t = e.eos THEN "" ELSE t), e.dist[i][2])

(* a proper deterministic right-linear grammar has total weight one at every nonterminal (however slowly the *)
(* iteration converges): the recorded totals are compared with 1 in fixed point                                *)
TreesumRLOK(e) == \A i \in DOMAIN e.chart : e.chart[i][1] \in NTs(e.G) => WEq(e.sr, One(e.sr), e.chart[i][2])

(* locally_normalize of a proper right-linear grammar (all totals are one): the same rules with the same weights *)
NormalizeRLOK(e) ==
  /\ Len(e.out.rules) = Len(e.G.rules)
  /\ \A i \in DOMAIN e.G.rules :
        \E j \in DOMAIN e.out.rules :
           /\ e.out.rules[j].h = e.G.rules[i].h /\ e.out.rules[j].b = e.G.rules[i].b
           /\ WEq(e.sr, e.G.rules[i].w, e.out.rules[j].w)

InDomainIn(e) ==
  CASE e.op \in {"parse"} -> InsideExact(e.sr, e.G)
    [] e.op \in {"prefix", "treesum", "treesum1", "pnext", "ntw", "lmcall", "explen", "pnextseq", "sample"} ->
          InsideExact(e.sr, e.G) /\ TreeSumExact(e.sr, e.G)
    [] e.op \in {"transform", "derivative", "addeos"} -> InsideExact(e.sr, e.in)
    [] e.op \in {"prefixgrammar", "normalize"} -> InsideExact(e.sr, e.in) /\ TreeSumExact(e.sr, e.in)
    [] e.op = "lang" -> InsideExact(e.sr, e.G)
    [] e.op \in {"pnextrl", "treesumrl"} -> DetRL(e.G) /\ ProperRL(e.sr, e.G)
    [] e.op = "normalizerl" -> (\A r \in DOMAIN e.G.rules : IsRLRule(e.G, r)) /\ ProperRL(e.sr, e.G)
    [] OTHER -> TRUE
(* the grammar the CODE produced left the exact domain (a unary / nullable cycle over the rationals): not judged *)
InDomainOut(e) ==
  CASE e.op \in {"transform", "derivative", "addeos", "prefixgrammar"} -> InsideExact(e.sr, e.out)
    [] e.op = "normalize" -> InsideExact(e.sr, e.out) /\ TreeSumExact(e.sr, e.out)
    [] OTHER -> TRUE

(* the set of failed clause names of an event *)
Failed(e) ==
  IF Has(e, "exc") THEN {"raised"}
  ELSE IF ~InDomainIn(e) THEN {"OUTDOM"}
  ELSE IF ~InDomainOut(e) THEN {"OUTSKIP"}
  ELSE
  CASE e.op = "parse" -> IF ParseOK(e) THEN {} ELSE {"weight"}
    [] e.op = "prefix" -> IF PrefixOK(e) THEN {} ELSE {"prefixweight"}
    [] e.op = "treesum" -> IF TreesumOK(e) THEN {} ELSE {"treesum"}
    [] e.op = "treesum1" -> IF WEq(e.sr, TreeSum(e.sr, e.G)[e.G.S], e.res) THEN {} ELSE {"treesum"}
    [] e.op = "treesumfix" -> IF TreesumFixOK(e) THEN {} ELSE {"fixpoint"}
    [] e.op = "transform" -> (IF TransformWeightsOK(e) THEN {} ELSE {"language"}) \cup FailedPosts(e)
    [] e.op = "derivative" -> IF DerivativeOK(e) THEN {} ELSE {"derivative"}
    [] e.op = "prefixgrammar" -> IF PrefixGrammarOK(e) THEN {} ELSE {"prefixgrammar"}
    [] e.op = "lang" -> IF LangOK(e) THEN {} ELSE {"language"}
    [] e.op = "mask" -> IF MaskOK(e) THEN {} ELSE {"mask"}
    [] e.op = "addeos" -> IF AddEosOK(e) THEN {} ELSE {"addeos"}
    [] e.op = "normalize" -> IF NormalizeOK(e) THEN {} ELSE {"normalize"}
    [] e.op = "pnext" -> (IF PNextOK(e) THEN {} ELSE {"proportional"})
                         \cup (IF PNextSumOK(e) THEN {} ELSE {"sumsto1"})
    [] e.op = "ntw" -> IF NtwOK(e) THEN {} ELSE {"nexttoken"}
    [] e.op = "lmcall" -> IF LmCallOK(e) THEN {} ELSE {"chainrule"}
    [] e.op = "sample" -> (IF SampleOK(e) THEN {} ELSE {"generation"})
                          \cup (IF SampleBoundOK(e) THEN {} ELSE {"maxtokens-conformance"})
    [] e.op = "explen" -> IF ExpLenOK(e) THEN {} ELSE {"explen"}
    [] e.op = "treesumrl" -> IF TreesumRLOK(e) THEN {} ELSE {"treesum"}
    [] e.op = "normalizerl" -> IF NormalizeRLOK(e) THEN {} ELSE {"normalize"}
    [] e.op = "pnextrl" -> IF PNextRLOK(e) THEN {} ELSE {"longcontext"}
    [] e.op = "pnextseq" -> IF PNextSeqOK(e) THEN {} ELSE {"chainrule"}
    [] e.op = "mapbool" -> IF MapBoolOK(e) THEN {} ELSE {"support"}

VARIABLES sh, l
vars == <<sh, l>>
Init == sh \in 0 .. (NSh - 1) /\ l = sh + 1
Next == /\ l <= Len(Trace)
        /\ TLCSet(7, 0)                   \* set by Semirings.tla when the oracle's arithmetic leaves the 32-bit range
        /\ LET e == Trace[l]
               f == Failed(e)
           IN IF f = {} THEN (IF TLCGet(7) = 0 THEN TRUE ELSE PrintT(<<"REJECT", e.tid, {"OUTSKIP"}>>))
              ELSE PrintT(<<"REJECT", e.tid, IF TLCGet(7) = 0 THEN f ELSE f \cup {"OUTSKIP"}>>)
        /\ l' = l + NSh
        /\ sh' = sh
Spec == Init /\ [][Next]_vars
=============================================================================
