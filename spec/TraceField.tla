----------------------------- MODULE TraceField -----------------------------
(* Trace validation of field_wfsa calls (C14) against FieldWfsa.tla.        *)
EXTENDS FieldWfsa, Json, IOUtils

Trace == ndJsonDeserialize(IOEnv.TRACE_FILE)
NSh == 16
Has(e, f) == f \in DOMAIN e
Sig(e) == SetOf(e.sigma)

(* counterexample(A, B): e.none = TRUE, or e.w with the two reported weights *)
CexOK(e) ==
  IF e.none THEN Equiv(e.A, e.B, Alphabet(e.A) \cup Alphabet(e.B))
  ELSE /\ DistinguishedBy(e.A, e.B, e.w)
       /\ REq(AWeight("Rat", e.A, e.w), e.va)
       /\ REq(AWeight("Rat", e.B, e.w), e.vb)
(* A == B and hash(A) == hash(B) *)
EqOK(e) == (e.eq <=> Equiv(e.A, e.B, Alphabet(e.A) \cup Alphabet(e.B))) /\ (e.eq => e.hasheq)
(* minimisation: dimension = Hankel rank, weights preserved (recorded per string) *)
(* the Hankel block itself for automata with up to 3 states (and there it must agree with the span form), the span *)
(* form beyond (the block has |Sigma|^(n-1) rows)                                                                  *)
RankOf(A) == IF ~NoEpsArcs(A) \/ A.n <= 3 THEN HankelRank(A, Alphabet(A)) ELSE HankelRankFast(A)
RankFormsAgree(A) == (NoEpsArcs(A) /\ A.n <= 3) => HankelRank(A, Alphabet(A)) = HankelRankFast(A)
MinDimOK(e) == e.dim = RankOf(e.A)
MinWeightsOK(e) == \A i \in DOMAIN e.vals : REq(AWeight("Rat", e.A, e.vals[i][1]), e.vals[i][2])

Failed(e) ==
  IF Has(e, "exc") THEN {"raised"}
  ELSE CASE e.op = "cex" -> IF CexOK(e) THEN {} ELSE {"counterexample"}
         [] e.op = "eq" -> IF EqOK(e) THEN {} ELSE {"equality"}
         [] e.op = "min" -> (IF MinDimOK(e) THEN {} ELSE {"mindim"}) \cup (IF MinWeightsOK(e) THEN {} ELSE {"minweights"})
                            \cup (IF RankFormsAgree(e.A) THEN {} ELSE {"ORACLE"})

VARIABLES sh, l
Init == sh \in 0 .. (NSh - 1) /\ l = sh + 1
Next == /\ l <= Len(Trace)
        /\ TLCSet(7, 0)                   \* set by Semirings.tla when the oracle's arithmetic leaves the 32-bit range
        /\ LET e == Trace[l]
               f == Failed(e)
           IN IF f = {} THEN (IF TLCGet(7) = 0 THEN TRUE ELSE PrintT(<<"REJECT", e.tid, {"OUTSKIP"}>>))
              ELSE PrintT(<<"REJECT", e.tid, IF TLCGet(7) = 0 THEN f ELSE f \cup {"OUTSKIP"}>>)
        /\ l' = l + NSh
        /\ sh' = sh
=============================================================================
