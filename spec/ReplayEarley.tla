---------------------------- MODULE ReplayEarley ----------------------------
(***************************************************************************)
(* Earley.tla instantiated with instances extracted from live parser       *)
(* objects of the real code (preprocessed rules, the object's own `order'  *)
(* map and ORDER_MAX).  TLC explores every tie-break schedule the design   *)
(* allows for these instances and prints, for each terminal state, the     *)
(* schedule that led there (GOOD) or the schedule that loses a             *)
(* contribution (BAD); the harness forces these schedules into the real    *)
(* next_column through a choosing heap.                                    *)
(***************************************************************************)
EXTENDS Earley, Json, IOUtils

Raw == ndJsonDeserialize(IOEnv.INST_FILE)
Conv(e) == [id |-> e.id, sr |-> e.sr, G |-> e.G, G0 |-> e.G0, om |-> e.om, s |-> e.s,
            ord |-> [x \in {e.ord[i][1] : i \in DOMAIN e.ord} |->
                        e.ord[CHOOSE i \in DOMAIN e.ord : e.ord[i][1] = x][2]]]
JsonInstances == {Conv(Raw[i]) : i \in DOMAIN Raw}

(* reports and prunes: never FALSE on a correct design *)
ReplayReport ==
  IF late
  THEN PrintT(ToString(<<"BAD", inst.id, "late", Weight(sr, inst.G0, Str), sched>>)) /\ FALSE
  ELSE IF phase = "done"
  THEN PrintT(ToString(<<IF Result = Weight(sr, G, Str) THEN "GOOD" ELSE "BAD", inst.id, "done",
                         Weight(sr, inst.G0, Str), Result, sched>>))
  ELSE TRUE
=============================================================================
