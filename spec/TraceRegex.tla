----------------------------- MODULE TraceRegex -----------------------------
(***************************************************************************)
(* Trace validation for C18 (regex automata) and C19 (Lark grammars).      *)
(***************************************************************************)
EXTENDS Lark, Automata, Grammars, Json, IOUtils

Trace == ndJsonDeserialize(IOEnv.TRACE_FILE)
NSh == 16
Has(e, f) == f \in DOMAIN e

(* the automaton accepts exactly the strings over the character set that the regex matches *)
SupportOK(e) == RxLang(e.re, SetOf(e.cs), e.fold, e.L) = SetOf(e.acc)

(* local normalisation, on weights recorded exactly <<n, d>> or in 2^-20 fixed point <<m, 2^20, 0>> *)
FxOf(w) == IF IsFx(w) THEN w[1] ELSE (w[1] * FxScale) \div w[2]
MassFx(Mm, q) ==
  LET fs == [i \in DOMAIN Mm.F |-> IF Mm.F[i][1] = q THEN FxOf(Mm.F[i][2]) ELSE 0]
      as == [r \in DOMAIN Mm.arcs |-> IF Mm.arcs[r][1] = q THEN FxOf(Mm.arcs[r][4]) ELSE 0]
      RECURSIVE S(_)
      S(x) == IF x = <<>> THEN 0 ELSE Head(x) + S(Tail(x))
  IN S(fs) + S(as)
Outdeg(Mm, q) == Cardinality({r \in DOMAIN Mm.arcs : Mm.arcs[r][1] = q}) + Cardinality({i \in DOMAIN Mm.F : Mm.F[i][1] = q})
UsedFx(Mm) == {Mm.arcs[r][1] : r \in DOMAIN Mm.arcs} \cup {Mm.arcs[r][3] : r \in DOMAIN Mm.arcs}
              \cup {Mm.I[i][1] : i \in DOMAIN Mm.I} \cup {Mm.F[i][1] : i \in DOMAIN Mm.F}
(* A start state with no arc and no final weight is what the conversion produces when no string at all matches over  *)
(* the set: there is nothing to normalise there (and SupportOK decides whether the language really is empty).         *)
Barren(Mm, q) == Outdeg(Mm, q) = 0 /\ \A r \in DOMAIN Mm.arcs : Mm.arcs[r][3] # q
NormalisedOK(e) == \A q \in UsedFx(e.M) : Barren(e.M, q) \/
   LET d == MassFx(e.M, q) - FxScale  t == 3 * Outdeg(e.M, q) + 2 IN -t <= d /\ d <= t
(* a long string (a walk of 25-40 arcs through the automaton, or that walk with one character changed): the weight   *)
(* the automaton's __call__ reports is non-zero exactly when an accepting path spells it - however small the weight  *)
BoolM(Mm) == [n |-> Mm.n, I |-> [i \in DOMAIN Mm.I |-> <<Mm.I[i][1], 1>>], F |-> [i \in DOMAIN Mm.F |-> <<Mm.F[i][1], 1>>],
              arcs |-> [r \in DOMAIN Mm.arcs |-> <<Mm.arcs[r][1], Mm.arcs[r][2], Mm.arcs[r][3], 1>>]]
LongOK(e) == ~Has(e, "long") \/ ((e.longpos = 1) <=> (AWeightLfp("Bool", BoolM(e.M), e.long) = 1))
NoEpsOK(e) == \A r \in DOMAIN e.M.arcs : e.M.arcs[r][2] # ""

(* C19: the grammar accepts exactly the listed strings (Boolean reading of its weights) *)
AcceptsOK(e) ==
  /\ \A i \in DOMAIN e.yes : Weight("Bool", e.G, e.yes[i]) = 1
  /\ \A i \in DOMAIN e.no : Weight("Bool", e.G, e.no[i]) = 0
DisjointOK(e) == NTs(e.G) \cap TermSet(e.G) = {} /\ Heads(e.G) \cap TermSet(e.G) = {}

(* C19: the character-level grammar accepts exactly CharLang; the byte-level grammar exactly its UTF-8 image *)
CharLangOK(e) == CharLang(e.LG, SetOf(e.cs), e.fold, e.L) = SetOf(e.acc)
Utf8(c) ==
  IF c < 128 THEN <<c>>
  ELSE IF c < 2048 THEN <<192 + (c \div 64), 128 + (c % 64)>>
  ELSE IF c < 65536 THEN <<224 + (c \div 4096), 128 + ((c \div 64) % 64), 128 + (c % 64)>>
  ELSE <<240 + (c \div 262144), 128 + ((c \div 4096) % 64), 128 + ((c \div 64) % 64), 128 + (c % 64)>>
RECURSIVE Flat(_)
Flat(q) == IF q = <<>> THEN <<>> ELSE Head(q) \o Flat(Tail(q))
CpOf(e, a) == e.cps[CHOOSE i \in DOMAIN e.cps : e.cps[i][1] = a][2]
EncText(e, s) == Flat([j \in DOMAIN s |-> Utf8(CpOf(e, s[j]))])
ByteLangOK(e) ==
  {bs \in {EncText(e, t) : t \in CharLang(e.LG, SetOf(e.cs), e.fold, e.L)} : Len(bs) <= e.L} = SetOf(e.bacc)

Failed(e) ==
  IF Has(e, "exc") THEN {"raised"}
  ELSE CASE e.op = "regex" -> (IF SupportOK(e) THEN {} ELSE {"support"})
                              \cup (IF RxLang(e.re, SetOf(e.cs), e.fold, e.L) = SetOf(e.re_acc) THEN {} ELSE {"ORACLE"})
                              \cup (IF NormalisedOK(e) THEN {} ELSE {"normalised"})
                              \cup (IF NoEpsOK(e) THEN {} ELSE {"epsfree"})
                              \cup (IF LongOK(e) THEN {} ELSE {"support"})
         [] e.op = "lark" -> IF CharLangOK(e) THEN {} ELSE {"charlang"}
         [] e.op = "larkbytes" -> IF ByteLangOK(e) THEN {} ELSE {"bytelang"}
         [] e.op = "accepts" -> (IF AcceptsOK(e) THEN {} ELSE {"accepts"})
                                \cup (IF DisjointOK(e) THEN {} ELSE {"namecollision"})

VARIABLES sh, l
Init == sh \in 0 .. (NSh - 1) /\ l = sh + 1
Next == /\ l <= Len(Trace)
        /\ TLCSet(7, 0)                   \* set by Semirings.tla when the oracle's arithmetic leaves the 32-bit range
        /\ LET e == Trace[l]
               f == Failed(e)
           IN IF f = {} THEN (IF TLCGet(7) = 0 THEN TRUE ELSE PrintT(<<"REJECT", e.tid, {"OUTSKIP"}>>))
              ELSE PrintT(<<"REJECT", e.tid, IF TLCGet(7) = 0 THEN f ELSE f \cup {"OUTSKIP"}>>)
        /\ l' = l + NSh
        /\ sh' = sh
=============================================================================
