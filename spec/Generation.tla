----------------------------- MODULE Generation -----------------------------
(***************************************************************************)
(* The generation loop of a grammar language model: LM.sample (and, with   *)
(* the draws fixed in advance, LM.__call__ and LM.p_next_seq).             *)
(*                                                                         *)
(* One action per iteration of the loop in lm.py: the caller's `draw`      *)
(* picks a token of the current conditional distribution (any token of its *)
(* support: Draw / Stop), the running probability is multiplied by the     *)
(* conditional, and the loop ends when end-of-sequence is drawn.  The loop *)
(* counter t and the bound max_tokens are modelled as the code has them:   *)
(* draws are free while t <= max_tokens and end-of-sequence is forced      *)
(* afterwards (ForceStop) - so up to max_tokens + 1 tokens are generated,  *)
(* one more than the docstring says; this is a named deviation of the code *)
(* from its documentation, outside every listed property, and the model    *)
(* follows the code.                                                       *)
(*                                                                         *)
(* Properties (C04):                                                       *)
(*   Factorisation  while running P = PW(ctx) / Z; once stopped            *)
(*                  P = W(ctx) / Z (possibly zero after a forced stop)     *)
(*   StaysViable    a running context always has positive prefix weight,   *)
(*                  so every conditional is well defined                   *)
(*   CondSumsToOne  the conditionals at every reached context sum to one   *)
(*   Terminates     on a grammar with finite language every fair run stops *)
(*                                                                         *)
(* The grammars are a TLC-enumerated family over exact rationals; every    *)
(* terminal state (a complete behaviour: grammar, draws, bound, P) is      *)
(* printed as JSON and replayed into the real LM objects with a scripted   *)
(* `draw` (direction spec -> code, DESIGN 4).                              *)
(***************************************************************************)
EXTENDS Grammars, FiniteSetsExt, SequencesExt, Json, TLC

CONSTANTS NTS, TS, MAXBODY, MAXRULES, WEIGHTS, BOUNDS     \* BOUNDS: values of max_tokens tried (Unbounded = -1)

Unbounded == -1
BoundSet == {Unbounded, 0, 1, 2}
BoundSetQ == {Unbounded, 1}
sr == "Rat"
EOSTOK == "<EOS>"
RatWeights2 == {<<1, 2>>, <<1, 1>>}
RatWeights3 == {<<1, 2>>, <<1, 1>>, <<1, 3>>}
Syms == NTS \cup TS
BodiesOf(n) == {<<>>} \cup UNION {[1 .. k -> Syms] : k \in 1 .. n}
Pool == {[w |-> w, h |-> h, b |-> b] : w \in WEIGHTS, h \in NTS, b \in BodiesOf(MAXBODY)}
RECURSIVE UpTo(_)                     \* all rule sets with at most k rules (kSubset is limited to 62 elements)
UpTo(k) == IF k = 0 THEN {{}} ELSE LET prev == UpTo(k - 1) IN prev \cup {rs \cup {r} : rs \in prev, r \in Pool}
RuleSets == UpTo(MAXRULES) \ {{}}
Raw == {[S |-> "S", V |-> SetToSeq(TS), rules |-> SetToSeq(rs)] : rs \in RuleSets}
(* finite language (no dependency cycle) and positive total weight: the exact domain of the rationals *)
Fam == {G \in Raw : ~HasCycle(DepEdges(G)) /\ TreeSum(sr, G)[G.S] # RZero}
FamSeq == SetToSeq(Fam)

VARIABLES g, bound, ctx, P, t, done
vars == <<g, bound, ctx, P, t, done>>

Z == TreeSum(sr, g)[g.S]
PW(p) == PrefixWeight(sr, g, p)
Cond(p, y) == IF y = EOSTOK THEN RDiv(Weight(sr, g, p), PW(p)) ELSE RDiv(PW(Append(p, y)), PW(p))
Tokens == TS \cup {EOSTOK}
Support(p) == {y \in Tokens : Cond(p, y) # RZero}
Free == bound = Unbounded \/ t <= bound          \* `t <= max_tokens` in the code

NSh == 16
Init == /\ g \in Fam
        /\ bound \in BOUNDS
        /\ ctx = <<>> /\ P = ROne /\ t = 0 /\ done = FALSE

Draw(y) == /\ ~done /\ Free /\ y # EOSTOK /\ y \in Support(ctx)
           /\ ctx' = Append(ctx, y) /\ P' = RMul(P, Cond(ctx, y)) /\ t' = t + 1
           /\ UNCHANGED <<g, bound, done>>
Stop == /\ ~done /\ Free /\ EOSTOK \in Support(ctx)
        /\ P' = RMul(P, Cond(ctx, EOSTOK)) /\ t' = t + 1 /\ done' = TRUE
        /\ UNCHANGED <<g, bound, ctx>>
ForceStop == /\ ~done /\ ~Free
             /\ P' = RMul(P, Cond(ctx, EOSTOK)) /\ t' = t + 1 /\ done' = TRUE
             /\ UNCHANGED <<g, bound, ctx>>
Next == (\E y \in TS : Draw(y)) \/ Stop \/ ForceStop
Spec == Init /\ [][Next]_vars /\ WF_vars(Next)

Factorisation == P = IF done THEN RDiv(Weight(sr, g, ctx), Z) ELSE RDiv(PW(ctx), Z)
StaysViable == ~done => PW(ctx) # RZero
CondSumsToOne == ~done => SumOver(sr, Tokens, [y \in Tokens |-> Cond(ctx, y)]) = ROne
LengthBound == bound # Unbounded => Len(ctx) <= bound + 1
Terminates == <>done

(* every complete behaviour, for the replay into the code *)
Behaviour == [G |-> g, ys |-> ctx, P |-> P, bound |-> bound]
Emit == done => PrintT(<<"BEH", ToJson(Behaviour)>>)
=============================================================================
