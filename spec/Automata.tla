----------------------------- MODULE Automata -----------------------------
(***************************************************************************)
(* Reference semantics of weighted finite-state automata and transducers   *)
(* (DESIGN.md 3.2).                                                        *)
(*                                                                         *)
(* A machine is a record [n, I, F, arcs]:                                  *)
(*    n     number of states; states are 0 .. n-1                          *)
(*    I, F  sequences of <<q, w>>     (several entries per state add up)   *)
(*    arcs  sequence of <<p, a, q, w>>      for an automaton               *)
(*                      <<p, a, b, q, w>>   for a transducer (a:b)         *)
(* The label "" is epsilon, as in the code.  Parallel arcs add up.         *)
(*                                                                         *)
(* The weight of a string is the sum over ALL accepting paths, including   *)
(* paths through epsilon arcs and epsilon cycles: a least fixed point over *)
(* forward items <<q, i>>, exact in a finite semiring.                     *)
(***************************************************************************)
EXTENDS Semirings

EPS == ""
St(M) == 0 .. (M.n - 1)
WI(sr, M, q) == SumSeq(sr, [i \in DOMAIN M.I |-> IF M.I[i][1] = q THEN M.I[i][2] ELSE Zero(sr)])
WF(sr, M, q) == SumSeq(sr, [i \in DOMAIN M.F |-> IF M.F[i][1] = q THEN M.F[i][2] ELSE Zero(sr)])

---------------------------------------------------------------------------
(* automata *)

AItems(M, n) == {<<q, i>> : q \in St(M), i \in 0 .. n}
AStep(sr, M, s, v) ==
  [it \in AItems(M, Len(s)) |->
    LET q == it[1]  i == it[2] IN
    Add(sr, IF i = 0 THEN WI(sr, M, q) ELSE Zero(sr),
        SumSeq(sr, [r \in DOMAIN M.arcs |->
           LET e == M.arcs[r] IN
           IF e[3] # q THEN Zero(sr)
           ELSE IF e[2] = EPS THEN Mul(sr, v[<<e[1], i>>], e[4])
           ELSE IF i >= 1 /\ s[i] = e[2] THEN Mul(sr, v[<<e[1], i - 1>>], e[4])
           ELSE Zero(sr)]))]
RECURSIVE ALfp(_, _, _, _)
ALfp(sr, M, s, v) == LET nx == AStep(sr, M, s, v) IN IF nx = v THEN v ELSE ALfp(sr, M, s, nx)
Forward(sr, M, s) == ALfp(sr, M, s, [it \in AItems(M, Len(s)) |-> Zero(sr)])
AWeightLfp(sr, M, s) ==
  LET v == Forward(sr, M, s)
  IN SumSeq(sr, [i \in DOMAIN M.F |-> Mul(sr, v[<<M.F[i][1], Len(s)>>], M.F[i][2])])

(* The same sum in closed form, for semirings where Kleene iteration does not terminate on epsilon cycles (the  *)
(* rationals): the epsilon closure Estar = sum_k E^k is computed by elimination with the semiring star (defined   *)
(* where the geometric series of every pivot converges); the weight is I Estar (A_s1 Estar) ... (A_sn Estar) F.   *)
(* MCAutomata.tla checks that both forms agree on every automaton of a small family in Sat3.                      *)
EpsW(sr, M, p, q) == SumSeq(sr, [r \in DOMAIN M.arcs |->
                        IF M.arcs[r][1] = p /\ M.arcs[r][3] = q /\ M.arcs[r][2] = EPS THEN M.arcs[r][4] ELSE Zero(sr)])
StPairs(M) == {<<p, q>> : p \in St(M), q \in St(M)}
RECURSIVE ElimFrom(_, _, _, _)
ElimFrom(sr, M, K, j) ==
  IF j = M.n THEN K
  ELSE LET sj == Star(sr, K[<<j, j>>])
       IN ElimFrom(sr, M, TLCEval([pq \in StPairs(M) |->        \* (TLCEval: a lazily evaluated matrix would be
                              Add(sr, K[pq], Mul(sr, Mul(sr, K[<<pq[1], j>>], sj), K[<<j, pq[2]>>]))]), j + 1)   \* re-evaluated 4^n times)
RECURSIVE PivotsOK(_, _, _, _)
PivotsOK(sr, M, K, j) ==
  IF j = M.n THEN TRUE
  ELSE StarDefined(sr, K[<<j, j>>]) /\
       LET sj == Star(sr, K[<<j, j>>])
       IN PivotsOK(sr, M, TLCEval([pq \in StPairs(M) |->
                              Add(sr, K[pq], Mul(sr, Mul(sr, K[<<pq[1], j>>], sj), K[<<j, pq[2]>>]))]), j + 1)
EpsMatrix(sr, M) == TLCEval([pq \in StPairs(M) |-> EpsW(sr, M, pq[1], pq[2])])
EpsClosureDefined(sr, M) == PivotsOK(sr, M, EpsMatrix(sr, M), 0)
EpsClosure(sr, M) ==
  LET K == ElimFrom(sr, M, EpsMatrix(sr, M), 0)
  IN TLCEval([pq \in StPairs(M) |-> IF pq[1] = pq[2] THEN Add(sr, One(sr), K[pq]) ELSE K[pq]])
AWeightClosed(sr, M, s) ==
  LET ES == EpsClosure(sr, M)
      close(v) == TLCEval([q \in St(M) |-> SumSeq(sr, [p \in 1 .. M.n |-> Mul(sr, v[p - 1], ES[<<p - 1, q>>])])])
      v0 == close([q \in St(M) |-> WI(sr, M, q)])
      RECURSIVE Run(_, _)
      Run(v, i) == IF i > Len(s) THEN v
                   ELSE Run(close([q \in St(M) |-> SumSeq(sr, [r \in DOMAIN M.arcs |->
                              IF M.arcs[r][3] = q /\ M.arcs[r][2] = s[i] THEN Mul(sr, v[M.arcs[r][1]], M.arcs[r][4])
                              ELSE Zero(sr)])]), i + 1)
      vn == Run(v0, 1)
  IN SumSeq(sr, [i \in DOMAIN M.F |-> Mul(sr, vn[M.F[i][1]], M.F[i][2])])

(* total weight of all accepting paths: backward least fixed point *)
BStep(sr, M, b) ==
  [q \in St(M) |-> Add(sr, WF(sr, M, q),
      SumSeq(sr, [r \in DOMAIN M.arcs |->
         LET e == M.arcs[r] IN
         IF e[1] # q THEN Zero(sr) ELSE Mul(sr, e[Len(e)], b[e[Len(e) - 1]])]))]
RECURSIVE BLfp(_, _, _)
BLfp(sr, M, b) == LET nx == BStep(sr, M, b) IN IF nx = b THEN b ELSE BLfp(sr, M, nx)
Backward(sr, M) == BLfp(sr, M, [q \in St(M) |-> Zero(sr)])
ATotal(sr, M) == LET b == Backward(sr, M)
                 IN SumSeq(sr, [i \in DOMAIN M.I |-> Mul(sr, M.I[i][2], b[M.I[i][1]])])

(* domain of exactness over the rationals: the iteration follows no cycle  *)
ArcEdges(M) == {<<M.arcs[r][1], M.arcs[r][Len(M.arcs[r]) - 1]>> : r \in DOMAIN M.arcs}
EpsEdges(M) == {<<M.arcs[r][1], M.arcs[r][3]>> : r \in {r \in DOMAIN M.arcs : M.arcs[r][2] = EPS}}
ReachA(E, S0) ==
  LET RECURSIVE Grow(_)
      Grow(S) == LET nx == S \cup {e[2] : e \in {e \in E : e[1] \in S}} IN IF nx = S THEN S ELSE Grow(nx)
  IN Grow(S0)
CyclicA(E) == \E e \in E : e[1] \in ReachA(E, {e[2]})
AExact(sr, M) == IsFinSR(sr) \/ ~CyclicA(EpsEdges(M)) \/ EpsClosureDefined(sr, M)
AWeight(sr, M, s) == IF IsFinSR(sr) \/ ~CyclicA(EpsEdges(M)) THEN AWeightLfp(sr, M, s) ELSE AWeightClosed(sr, M, s)
ATotalExact(sr, M) == IsFinSR(sr) \/ ~CyclicA(ArcEdges(M))

(* structural predicates *)
Alphabet(M) == {M.arcs[r][2] : r \in DOMAIN M.arcs} \ {EPS}
NoEpsArcs(M) == \A r \in DOMAIN M.arcs : M.arcs[r][2] # EPS
InitStates(sr, M) == {q \in St(M) : WI(sr, M, q) # Zero(sr)}
FinalStates(sr, M) == {q \in St(M) : WF(sr, M, q) # Zero(sr)}
LiveArcs(sr, M) == {r \in DOMAIN M.arcs : M.arcs[r][4] # Zero(sr)}
Deterministic(sr, M) ==
  /\ Cardinality(InitStates(sr, M)) <= 1
  /\ NoEpsArcs(M)
  /\ \A r1, r2 \in LiveArcs(sr, M) :
        (M.arcs[r1][1] = M.arcs[r2][1] /\ M.arcs[r1][2] = M.arcs[r2][2]) => M.arcs[r1][3] = M.arcs[r2][3]
Accessible(sr, M) == ReachA({<<M.arcs[r][1], M.arcs[r][3]>> : r \in LiveArcs(sr, M)}, InitStates(sr, M))
CoAccessible(sr, M) == ReachA({<<M.arcs[r][3], M.arcs[r][1]>> : r \in LiveArcs(sr, M)}, FinalStates(sr, M))
UsedStates(sr, M) == {M.arcs[r][1] : r \in LiveArcs(sr, M)} \cup {M.arcs[r][3] : r \in LiveArcs(sr, M)}
                     \cup InitStates(sr, M) \cup FinalStates(sr, M)
(* every state that carries anything lies on an accepting path *)
TrimmedA(sr, M) == UsedStates(sr, M) \subseteq (Accessible(sr, M) \cap CoAccessible(sr, M))
(* outgoing arc weights plus final weight sum to one at every used state *)
OutMass(sr, M, q) == Add(sr, WF(sr, M, q),
    SumSeq(sr, [r \in DOMAIN M.arcs |-> IF M.arcs[r][1] = q THEN M.arcs[r][4] ELSE Zero(sr)]))
Stochastic(sr, M) == \A q \in UsedStates(sr, M) : OutMass(sr, M, q) = One(sr)

---------------------------------------------------------------------------
(* operations on weighted languages (C12), defined on strings *)

Rev(s) == [i \in 1 .. Len(s) |-> s[Len(s) + 1 - i]]
ConcatW(sr, A, B, s) ==      \* sum over splits s = u v
  SumRange(sr, [j \in 0 .. Len(s) |->
      Mul(sr, AWeight(sr, A, SubSeq(s, 1, j)), AWeight(sr, B, SubSeq(s, j + 1, Len(s))))], 0, Len(s))
(* star(A)(s): sum over all factorisations; least solution of X = 1 + A X *)
RECURSIVE StarW(_, _, _)
StarW(sr, A, s) ==
  LET a0 == AWeight(sr, A, <<>>)
      st == Star(sr, a0)
  IN IF s = <<>> THEN st
     ELSE Mul(sr, st, SumRange(sr, [j \in 1 .. Len(s) |->
              Mul(sr, AWeight(sr, A, SubSeq(s, 1, j)), StarW(sr, A, SubSeq(s, j + 1, Len(s))))], 1, Len(s)))
PlusW(sr, A, s) ==
  SumRange(sr, [j \in 0 .. Len(s) |->
      Mul(sr, AWeight(sr, A, SubSeq(s, 1, j)), StarW(sr, A, SubSeq(s, j + 1, Len(s))))], 0, Len(s))

---------------------------------------------------------------------------
(* transducers: weight of the pair (x, y) = sum over accepting paths whose  *)
(* input labels spell x and output labels spell y                           *)

TItems(M, n, m) == {<<q, i, j>> : q \in St(M), i \in 0 .. n, j \in 0 .. m}
TStep(sr, M, x, y, v) ==
  [it \in TItems(M, Len(x), Len(y)) |->
    LET q == it[1]  i == it[2]  j == it[3] IN
    Add(sr, IF i = 0 /\ j = 0 THEN WI(sr, M, q) ELSE Zero(sr),
        SumSeq(sr, [r \in DOMAIN M.arcs |->
           LET e == M.arcs[r] IN
           IF e[4] # q THEN Zero(sr) ELSE
           LET di == IF e[2] = EPS THEN 0 ELSE 1
               dj == IF e[3] = EPS THEN 0 ELSE 1
           IN IF i < di \/ j < dj THEN Zero(sr)
              ELSE IF di = 1 /\ x[i] # e[2] THEN Zero(sr)
              ELSE IF dj = 1 /\ y[j] # e[3] THEN Zero(sr)
              ELSE Mul(sr, v[<<e[1], i - di, j - dj>>], e[5])]))]
RECURSIVE TLfp(_, _, _, _, _)
TLfp(sr, M, x, y, v) == LET nx == TStep(sr, M, x, y, v) IN IF nx = v THEN v ELSE TLfp(sr, M, x, y, nx)
TWeight(sr, M, x, y) ==
  LET v == TLfp(sr, M, x, y, [it \in TItems(M, Len(x), Len(y)) |-> Zero(sr)])
  IN SumSeq(sr, [i \in DOMAIN M.F |-> Mul(sr, v[<<M.F[i][1], Len(x), Len(y)>>], M.F[i][2])])

TEpsEdges(M) == {<<M.arcs[r][1], M.arcs[r][4]>> :
                    r \in {r \in DOMAIN M.arcs : M.arcs[r][2] = EPS /\ M.arcs[r][3] = EPS}}
TExact(sr, M) == IsFinSR(sr) \/ ~CyclicA(TEpsEdges(M))
TInAlphabet(M) == {M.arcs[r][2] : r \in DOMAIN M.arcs} \ {EPS}
TOutAlphabet(M) == {M.arcs[r][3] : r \in DOMAIN M.arcs} \ {EPS}

(* the diagonal transducer of an automaton, transposition, projections *)
Diag(M) == [n |-> M.n, I |-> M.I, F |-> M.F,
            arcs |-> [r \in DOMAIN M.arcs |-> <<M.arcs[r][1], M.arcs[r][2], M.arcs[r][2], M.arcs[r][3], M.arcs[r][4]>>]]
Transpose(M) == [n |-> M.n, I |-> M.I, F |-> M.F,
            arcs |-> [r \in DOMAIN M.arcs |-> <<M.arcs[r][1], M.arcs[r][3], M.arcs[r][2], M.arcs[r][4], M.arcs[r][5]>>]]
Project(M, axis) == [n |-> M.n, I |-> M.I, F |-> M.F,
            arcs |-> [r \in DOMAIN M.arcs |-> <<M.arcs[r][1], M.arcs[r][IF axis = 0 THEN 2 ELSE 3], M.arcs[r][4], M.arcs[r][5]>>]]

---------------------------------------------------------------------------
(* Composition.  RelCompose is the definition (sum over intermediate        *)
(* strings, here up to a length bound); FilterCompose is the least fixed    *)
(* point over <<p, f, q, i, k>> of the product with Mohri's three-state     *)
(* epsilon filter, which sums every pair of matching paths exactly once     *)
(* even with epsilon cycles on both sides.                                  *)

CItems(A, B, n, m) == {<<p, f, q, i, k>> : p \in St(A), f \in 0 .. 2, q \in St(B), i \in 0 .. n, k \in 0 .. m}
CStep(sr, A, B, x, z, v) ==
  [it \in CItems(A, B, Len(x), Len(z)) |->
    LET p2 == it[1]  f2 == it[2]  q2 == it[3]  i == it[4]  k == it[5]
        Z == Zero(sr)
    IN
    Add(sr, IF i = 0 /\ k = 0 /\ f2 = 0 THEN Mul(sr, WI(sr, A, p2), WI(sr, B, q2)) ELSE Z,
    Add(sr,
      \* (1) both machines move: a middle symbol is matched (filter -> 0), or both take an
      \*     epsilon on the middle tape together (only from filter state 0)
      IF f2 # 0 THEN Z ELSE
      SumSeq(sr, [r \in DOMAIN A.arcs |-> LET e == A.arcs[r] IN
        IF e[4] # p2 THEN Z ELSE
        LET di == IF e[2] = EPS THEN 0 ELSE 1 IN
        IF i < di \/ (di = 1 /\ x[i] # e[2]) THEN Z ELSE
        SumSeq(sr, [s \in DOMAIN B.arcs |-> LET g == B.arcs[s] IN
          IF g[4] # q2 \/ g[2] # e[3] THEN Z ELSE
          LET dk == IF g[3] = EPS THEN 0 ELSE 1 IN
          IF k < dk \/ (dk = 1 /\ z[k] # g[3]) THEN Z ELSE
          IF e[3] # EPS
          THEN Mul(sr, Mul(sr, Add(sr, Add(sr, v[<<e[1], 0, g[1], i - di, k - dk>>],
                                               v[<<e[1], 1, g[1], i - di, k - dk>>]),
                                       v[<<e[1], 2, g[1], i - di, k - dk>>]), e[5]), g[5])
          ELSE Mul(sr, Mul(sr, v[<<e[1], 0, g[1], i - di, k - dk>>], e[5]), g[5])])]),
    Add(sr,
      \* (2) A moves alone on an arc with epsilon output: filter 0 or 2 -> 2
      IF f2 # 2 THEN Z ELSE
      SumSeq(sr, [r \in DOMAIN A.arcs |-> LET e == A.arcs[r] IN
        IF e[4] # p2 \/ e[3] # EPS THEN Z ELSE
        LET di == IF e[2] = EPS THEN 0 ELSE 1 IN
        IF i < di \/ (di = 1 /\ x[i] # e[2]) THEN Z ELSE
        Mul(sr, Add(sr, v[<<e[1], 0, q2, i - di, k>>], v[<<e[1], 2, q2, i - di, k>>]), e[5])]),
      \* (3) B moves alone on an arc with epsilon input: filter 0 or 1 -> 1
      IF f2 # 1 THEN Z ELSE
      SumSeq(sr, [s \in DOMAIN B.arcs |-> LET g == B.arcs[s] IN
        IF g[4] # q2 \/ g[2] # EPS THEN Z ELSE
        LET dk == IF g[3] = EPS THEN 0 ELSE 1 IN
        IF k < dk \/ (dk = 1 /\ z[k] # g[3]) THEN Z ELSE
        Mul(sr, Add(sr, v[<<p2, 0, g[1], i, k - dk>>], v[<<p2, 1, g[1], i, k - dk>>]), g[5])]))))]
RECURSIVE CLfp(_, _, _, _, _, _)
CLfp(sr, A, B, x, z, v) == LET nx == CStep(sr, A, B, x, z, v) IN IF nx = v THEN v ELSE CLfp(sr, A, B, x, z, nx)
FilterCompose(sr, A, B, x, z) ==
  LET v == CLfp(sr, A, B, x, z, [it \in CItems(A, B, Len(x), Len(z)) |-> Zero(sr)])
      at(p, q) == Add(sr, Add(sr, v[<<p, 0, q, Len(x), Len(z)>>], v[<<p, 1, q, Len(x), Len(z)>>]),
                          v[<<p, 2, q, Len(x), Len(z)>>])
  IN SumSeq(sr, [a \in DOMAIN A.F |-> SumSeq(sr, [b \in DOMAIN B.F |->
        Mul(sr, Mul(sr, at(A.F[a][1], B.F[b][1]), A.F[a][2]), B.F[b][2])])])

RelCompose(sr, A, B, x, z, Mid, L) ==
  LET Y == Strs(Mid, L)
  IN SumOver(sr, Y, [y \in Y |-> Mul(sr, TWeight(sr, A, x, y), TWeight(sr, B, y, z))])
(* the intermediate strings are bounded when one side's arc graph is acyclic *)
TAcyclic(M) == ~CyclicA({<<M.arcs[r][1], M.arcs[r][4]>> : r \in DOMAIN M.arcs})
=============================================================================
