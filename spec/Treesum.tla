------------------------------ MODULE Treesum ------------------------------
(***************************************************************************)
(* CFG.agenda (genlm/grammar/cfg.py): SCC-ordered semi-naive fixed-point   *)
(* iteration for the total weight of every symbol, as a state machine.     *)
(*                                                                         *)
(*   old      chart of values already propagated                           *)
(*   change   per bucket, the pending updates  symbol |-> delta            *)
(*   b        the bucket being drained (from the leaves towards the start) *)
(*                                                                         *)
(*   PopUpdate(u)  change[b].popitem() for ANY pending symbol u of the     *)
(*                 bucket: new = old[u] + v; for every occurrence (r, k)   *)
(*                 of u in a rule body the contribution                    *)
(*                   r.w * prod_j (j < k: new | j = k: v | j > k: old[u])  *)
(*                 (other symbols: old) is sent to change[bucket[r.head]]  *)
(*   NextBucket    the bucket is empty: b decreases                        *)
(*                                                                         *)
(* `bucket' is ANY numbering compatible with the dependency graph (users   *)
(* of a symbol are numbered no higher than the symbol): the order in which *)
(* Tarjan's algorithm happens to emit the components (set iteration order, *)
(* hash seed) is not part of the design.                                   *)
(***************************************************************************)
EXTENDS Grammars, FiniteSetsExt, SequencesExt

CONSTANTS NTS, TS, MAXBODY, MAXRULES, WEIGHTS, SRNAME

Syms == NTS \cup TS
BodiesOf(n) == {b \in UNION {[1 .. k -> Syms] : k \in 1 .. n} : TRUE} \cup {<<>>}
Pool == {[w |-> w, h |-> h, b |-> b] : w \in WEIGHTS, h \in NTS, b \in BodiesOf(MAXBODY)}
RuleSets == UNION {kSubset(j, Pool) : j \in 1 .. MAXRULES}

VARIABLES g, bucket, old, change, b, lateupd
vars == <<g, bucket, old, change, b, lateupd>>
sr == SRNAME

AllSyms(G) == NTs(G) \cup TermSet(G)
Deps(G) == UNION {{<<G.rules[r].h, y>> : y \in SetOf(G.rules[r].b)} : r \in DOMAIN G.rules}
(* compatible numbering: same number iff mutually dependent; a user is numbered below what it uses *)
Mutual(G, x, y) == x = y \/ (y \in Reach(Deps(G), {x}) /\ x \in Reach(Deps(G), {y}))
ValidBucket(G, f) ==
  /\ \A x, y \in AllSyms(G) : (f[x] = f[y]) <=> Mutual(G, x, y)
  /\ \A e \in Deps(G) : f[e[1]] <= f[e[2]]

Get(f, x) == IF x \in DOMAIN f THEN f[x] ELSE Zero(sr)
Bump(f, x, w) == IF x \in DOMAIN f THEN [f EXCEPT ![x] = Add(sr, @, w)] ELSE f @@ (x :> w)

NB(G) == Cardinality(AllSyms(G))

(* the initial updates: every terminal gets one, every nullary rule its weight *)
RECURSIVE SeedRules(_, _, _, _)
SeedRules(G, f, ch, r) ==
  IF r > Len(G.rules) THEN ch
  ELSE SeedRules(G, f, IF G.rules[r].b = <<>>
                       THEN [ch EXCEPT ![f[G.rules[r].h]] = Bump(@, G.rules[r].h, G.rules[r].w)] ELSE ch, r + 1)
SeedChange(G, f) ==
  LET c0 == [k \in 0 .. NB(G) |-> <<>>]
      RECURSIVE T(_, _)
      T(S, ch) == IF S = {} THEN ch
                  ELSE LET a == CHOOSE a \in S : TRUE IN T(S \ {a}, [ch EXCEPT ![f[a]] = Bump(@, a, One(sr))])
  IN SeedRules(G, f, T(TermSet(G), c0), 1)

Init == /\ \E rs \in RuleSets :
           g = [S |-> "S", V |-> SetToSeq(TS), rules |-> SetToSeq(rs)]
        /\ bucket \in [AllSyms(g) -> 0 .. (NB(g) - 1)]
        /\ ValidBucket(g, bucket)
        /\ old = <<>>
        /\ change = SeedChange(g, bucket)
        /\ b = NB(g)
        /\ lateupd = FALSE

(* contribution of occurrence k of u in rule r *)
RECURSIVE Contrib(_, _, _, _, _, _)
Contrib(ru, u, k, v, new, j) ==
  IF j > Len(ru.b) THEN One(sr)
  ELSE Mul(sr, IF ru.b[j] = u THEN (IF j < k THEN new ELSE IF j = k THEN v ELSE Get(old, u))
               ELSE Get(old, ru.b[j]),
           Contrib(ru, u, k, v, new, j + 1))

Occ(G, u) == {<<r, k>> : r \in DOMAIN G.rules, k \in 1 .. MAXBODY} \cap
             {rk \in (DOMAIN G.rules) \X (1 .. MAXBODY) : rk[2] <= Len(G.rules[rk[1]].b) /\ G.rules[rk[1]].b[rk[2]] = u}

RECURSIVE Route(_, _, _, _, _, _)
Route(S, u, v, new, ch, late) ==
  IF S = {} THEN <<ch, late>>
  ELSE LET rk == CHOOSE rk \in S : TRUE
           ru == g.rules[rk[1]]
           W == Mul(sr, ru.w, Contrib(ru, u, rk[2], v, new, 1))
           tb == bucket[ru.h]
       IN Route(S \ {rk}, u, v, new, [ch EXCEPT ![tb] = Bump(@, ru.h, W)], late \/ tb > b)

PopUpdate(u) ==
  /\ b <= NB(g) /\ b >= 0 /\ u \in DOMAIN change[b]
  /\ LET v == change[b][u]
         new == Add(sr, Get(old, u), v)
         ch1 == [change EXCEPT ![b] = [x \in (DOMAIN @) \ {u} |-> @[x]]]
     IN IF new = Get(old, u)
        THEN change' = ch1 /\ UNCHANGED <<old, lateupd>>          \* within tolerance: dropped
        ELSE LET r == Route(Occ(g, u), u, v, new, ch1, lateupd)
             IN change' = r[1] /\ lateupd' = r[2] /\ old' = (IF u \in DOMAIN old THEN [old EXCEPT ![u] = new] ELSE old @@ (u :> new))
  /\ UNCHANGED <<g, bucket, b>>

NextBucket == /\ b >= 0 /\ DOMAIN change[b] = {}
              /\ b' = b - 1
              /\ UNCHANGED <<g, bucket, old, change, lateupd>>

Next == (\E u \in AllSyms(g) : PopUpdate(u)) \/ NextBucket
Spec == Init /\ [][Next]_vars

Done == b < 0
(* an update never goes to a bucket that was already drained *)
NoLateUpdate == ~lateupd
(* the chart never exceeds the least fixed point, and equals it at the end *)
LfpT == TreeSum(sr, g)
Bounded == \A X \in NTs(g) : Get(old, X) <= LfpT[X]
Final == Done => /\ \A X \in NTs(g) : Get(old, X) = LfpT[X]
                 /\ \A a \in TermSet(g) : Get(old, a) = One(sr)
=============================================================================
