----------------------------- MODULE MCEarley -----------------------------
(***************************************************************************)
(* Model-checking configuration of Earley.tla: every grammar of at most K  *)
(* rules from a pool over {S,A,B} and {b} (bodies b, X, XY, bX, Xb: unary  *)
(* chains, left/right recursion, ambiguity; no nullary rule and no unary   *)
(* cycle, which is what the parser's preprocessing guarantees), every      *)
(* string b^n (n <= MAXN), EVERY numbering of the nonterminals compatible   *)
(* with the unary rules (= every nonterminal naming / hash seed), both     *)
(* values of ORDER_MAX found in the code, and every tie-break.             *)
(***************************************************************************)
EXTENDS Earley, FiniteSetsExt, SequencesExt

CONSTANTS K, MAXN, PLUS1, WEIGHTS, SRNAME

NT == {"S", "A", "B"}
Bodies == {<<"b">>} \cup {<<x>> : x \in NT} \cup {<<x, y>> : x \in NT, y \in NT}
          \cup {<<"b", x>> : x \in NT} \cup {<<x, "b">> : x \in NT}
Pool == {[w |-> w, h |-> h, b |-> b] : w \in WEIGHTS, h \in NT, b \in Bodies}

UnaryOf(rs) == {<<r.h, r.b[1]>> : r \in {r \in rs : Len(r.b) = 1 /\ r.b[1] \in NT}}
ValidOrd(rs, o) == /\ \A e \in UnaryOf(rs) : o[e[2]] < o[e[1]]
                   /\ \A x, y \in NT : x # y => o[x] # o[y]
Ords(rs) == {o \in [NT -> 0 .. (Cardinality(NT) - 1)] : ValidOrd(rs, o)}

Subsets == IF K = 2 THEN {{a, b} : a \in Pool, b \in Pool}     \* kSubset is limited to 62 elements
           ELSE UNION {kSubset(j, Pool) : j \in 1 .. K}
RuleSets == {rs \in Subsets :
               (\E r \in rs : r.h = "S") /\ ~HasCycle(UnaryOf(rs))}
MCInit == \E rs \in RuleSets : \E o \in Ords(rs) : \E n \in 1 .. MAXN :
   InitWith([id |-> 0, sr |-> SRNAME,
             G |-> [S |-> "S", V |-> <<"b">>, rules |-> SetToSeq(rs)],
             ord |-> o,
             om |-> IF PLUS1 THEN Cardinality(NT) ELSE Cardinality(NT) - 1,
             s |-> [i \in 1 .. n |-> "b"]])
=============================================================================
