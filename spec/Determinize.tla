---------------------------- MODULE Determinize ----------------------------
(***************************************************************************)
(* Mohri's on-the-fly weighted determinisation as WFSA.determinize runs it *)
(* (after epsilon removal and weight pushing, which are judged separately: *)
(* the model starts from an epsilon-free machine).                         *)
(*                                                                         *)
(* A state of the result is a WEIGHTED SUBSET: a function from states of   *)
(* the input to residual weights that sum to one.  One action per          *)
(* iteration of the work-list loop: Expand(P) takes ANY pending subset     *)
(* (the code pops the most recent one; the result does not depend on the   *)
(* order, which TLC checks by exploring all of them), computes for every   *)
(* symbol a the unnormalised successor U_a[j] = sum_i P[i] * w(i, a, j),   *)
(* emits the arc P --a / W--> U_a / W with W = sum_j U_a[j], and queues    *)
(* the successor if it is new.  The semi-algorithm need not terminate      *)
(* (the twins property); the model is bounded by MAXSUBSETS and the        *)
(* properties are checked on the part built so far:                        *)
(*                                                                         *)
(*   OneArcPerSymbol at most one arc per subset and symbol                 *)
(*   Residuals       every subset's residuals sum to one and are non-zero  *)
(*   PathInvariant   for the access string x of a subset Q with path       *)
(*                   weight w:  w * Q[q] = the total weight of the paths   *)
(*                   of the input labelled x that end in q                 *)
(*   SameLanguage    once the work list is empty, the result assigns every *)
(*                   string up to L the weight the input assigns           *)
(*   OrderIrrelevant the set of subsets and arcs at termination does not   *)
(*                   depend on the expansion order (a single terminal      *)
(*                   state per input machine; checked by the harness on    *)
(*                   TLC's output)                                         *)
(*                                                                         *)
(* The family: every epsilon-free machine with two states over {a, b}      *)
(* whose arcs come from a pool with weights 1/2 and 1, exact rationals.    *)
(* Each machine of the family (and its terminal result) is printed as JSON *)
(* and the same machines are determinised by the real code (direction C).  *)
(***************************************************************************)
EXTENDS DetCore, FiniteSetsExt, SequencesExt, Json, TLC

CONSTANTS MAXARCS, MAXSUBSETS, L

sr == "Rat"
States == {0, 1}
Sigma == {"a", "b"}
Ws == {<<1, 2>>, <<1, 1>>}
ArcPool == {<<p, a, q, w>> : p \in States, a \in Sigma, q \in States, w \in Ws}
RECURSIVE UpTo(_)
UpTo(k) == IF k = 0 THEN {{}} ELSE LET prev == UpTo(k - 1) IN prev \cup {as \cup {r} : as \in prev, r \in ArcPool}
(* at most one arc per (p, a, q): parallel arcs are covered by the trace checks *)
ArcSets == {as \in UpTo(MAXARCS) : \A r1, r2 \in as : (r1[1] = r2[1] /\ r1[2] = r2[2] /\ r1[3] = r2[3]) => r1 = r2}
Fam == {[n |-> 2, I |-> SetToSeq({<<q, <<1, 2>>>> : q \in i}), F |-> SetToSeq({<<q, <<1, 1>>>> : q \in f}), arcs |-> SetToSeq(as)] :
          i \in (SUBSET States) \ {{}}, f \in (SUBSET States) \ {{}}, as \in ArcSets \ {{}}}

VARIABLES m, visited, pending, arcs, access
vars == <<m, visited, pending, arcs, access>>

Support(Q) == DSupport(Q)
ValOf(Q, q) == DValOf(Q, q)
SumVals(Q) == DSumVals(Q)
Unnorm(P, a) == DUnnorm(m, P, a)
Normal(U) == DNormal(U)
Start == DStart(m)

Init == /\ m \in Fam
        /\ visited = {Start} /\ pending = {Start} /\ arcs = {}
        /\ access = [Q \in {Start} |-> <<<<>>, ROne>>]          \* access string and its path weight

Succs(P) == {<<a, Unnorm(P, a)>> : a \in {a \in Sigma : Unnorm(P, a) # {}}}
Expand(P) ==
  /\ P \in pending
  /\ LET new == {<<P, s[1], Normal(s[2]), SumVals(s[2])>> : s \in Succs(P)}
         fresh == {r[3] : r \in new} \ visited
     IN /\ arcs' = arcs \cup new
        /\ visited' = visited \cup fresh
        /\ pending' = (pending \ {P}) \cup fresh
        /\ access' = [Q \in visited \cup fresh |->
                        IF Q \in visited THEN access[Q]
                        ELSE LET r == CHOOSE r \in new : r[3] = Q
                             IN <<Append(access[P][1], r[2]), RMul(access[P][2], r[4])>>]
  /\ UNCHANGED m
Next == \E P \in pending : Expand(P)
Bounded == Cardinality(visited) <= MAXSUBSETS

OneArcPerSymbol == \A r1, r2 \in arcs : (r1[1] = r2[1] /\ r1[2] = r2[2]) => r1 = r2
Residuals == \A Q \in visited \ {Start} : SumVals(Q) = ROne /\ \A e \in Q : e[2] # RZero
PathInvariant ==
  \A Q \in visited :
    LET x == access[Q][1]
        w == access[Q][2]
        fwd == Forward(sr, m, x)
    IN \A q \in States : RMul(w, ValOf(Q, q)) = fwd[<<q, Len(x)>>]

(* the weight the (partial) result assigns to a string: follow the unique path *)
RECURSIVE Run(_, _, _)
Run(Q, s, w) ==
  IF s = <<>> THEN RMul(w, SumOver(sr, Q, [e \in Q |-> RMul(e[2], WF(sr, m, e[1]))]))
  ELSE LET out == {r \in arcs : r[1] = Q /\ r[2] = Head(s)}
       IN IF out = {} THEN RZero
          ELSE LET r == CHOOSE r \in out : TRUE IN Run(r[3], Tail(s), RMul(w, r[4]))
SameLanguage == pending = {} => \A s \in Strs(Sigma, L) : Run(Start, s, ROne) = AWeightLfp(sr, m, s)

(* the closure computed as a function (used by the trace specification) is the state machine's result *)
FunctionalAgrees == pending = {} => visited = DetSubsets(m, MAXSUBSETS)

(* terminal states, for the replay into the code and for the order-independence check *)
Emit == pending = {} => PrintT(<<"DET", ToJson([M |-> m, nsubsets |-> Cardinality(visited), narcs |-> Cardinality(arcs)])>>)
=============================================================================
