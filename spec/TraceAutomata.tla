--------------------------- MODULE TraceAutomata ---------------------------
(***************************************************************************)
(* Trace validation of automaton / transducer / composition calls of the   *)
(* real code against Automata.tla and GrammarCompose.tla (C09 - C13, C17). *)
(* Same batch pattern as TraceGrammar.tla.                                 *)
(***************************************************************************)
EXTENDS GrammarCompose, DetCore, Json, IOUtils

Trace == ndJsonDeserialize(IOEnv.TRACE_FILE)
NSh == 16
Has(e, f) == f \in DOMAIN e
Sig(e) == SetOf(e.sigma)

CallOK(e) == WEq(e.sr, AWeight(e.sr, e.M, e.s), e.res)
TotalOK(e) == WEq(e.sr, ATotal(e.sr, e.M), e.res)

(* the library's own evaluation of the machine it has just built, on a few strings *)
CallsOK(e) == ~Has(e, "calls") \/ \A i \in DOMAIN e.calls : WEq(e.sr, AWeight(e.sr, e.out, e.calls[i][1]), e.calls[i][2])

(* threshold(t): initial weights, arcs and final weights whose absolute value is below t are dropped *)
RAbs(w) == IF w[1] < 0 THEN RNeg(w) ELSE w
KeepT(w, t) == ~RLt(RAbs(w), t)
Thresholded(M, t) == [n |-> M.n, I |-> SelectSeq(M.I, LAMBDA r : KeepT(r[2], t)),
                      F |-> SelectSeq(M.F, LAMBDA r : KeepT(r[2], t)),
                      arcs |-> SelectSeq(M.arcs, LAMBDA r : KeepT(r[4], t))]

(* language identity of an operation, on all strings up to L *)
OpWeightsOK(e) ==
  \A s \in Strs(Sig(e), e.L) :
    LET have == AWeight(e.sr, e.out, s) IN
    CASE e.fn = "same" -> have = AWeight(e.sr, e.A, s)
      [] e.fn = "add" -> have = Add(e.sr, AWeight(e.sr, e.A, s), AWeight(e.sr, e.B, s))
      [] e.fn = "mul" -> have = ConcatW(e.sr, e.A, e.B, s)
      [] e.fn = "star" -> have = StarW(e.sr, e.A, s)
      [] e.fn = "plus" -> have = PlusW(e.sr, e.A, s)
      [] e.fn = "reverse" -> have = AWeight(e.sr, e.A, Rev(s))
      [] e.fn = "scale" -> have = Mul(e.sr, e.m, AWeight(e.sr, e.A, s))      \* multiplicity(m) = lift(eps, m) . A
      [] e.fn = "threshold" -> have = AWeight(e.sr, Thresholded(e.A, e.t), s)

PostA(sr, M, name) ==
  CASE name = "noeps" -> NoEpsArcs(M)
    [] name = "deterministic" -> Deterministic(sr, M)
    [] name = "trimmed" -> TrimmedA(sr, M)
    [] name = "stochastic" -> Stochastic(sr, M)
FailedPostsA(e) == {e.posts[i] : i \in {i \in DOMAIN e.posts : ~PostA(e.sr, e.out, e.posts[i])}}

(* structure conformance with Determinize.tla: the code determinises the epsilon-free, weight-pushed form of its     *)
(* input, which the harness records (`pushed`; epsremove and push are judged on their own); the result must have      *)
(* exactly as many states as the closure of weighted subsets of that machine.  Not judged when the closure exceeds   *)
(* 8 subsets or when the pushed weights were computed in floating point.                                             *)
AllUsed(sr, M) == UsedStates(sr, M) \cup {M.I[i][1] : i \in {i \in DOMAIN M.I : M.I[i][2] # Zero(sr)}}
                                    \cup {M.F[i][1] : i \in {i \in DOMAIN M.F : M.F[i][2] # Zero(sr)}}
ExactM(M) == /\ \A i \in DOMAIN M.I : Len(M.I[i][2]) = 2
             /\ \A i \in DOMAIN M.F : Len(M.F[i][2]) = 2
             /\ \A r \in DOMAIN M.arcs : Len(M.arcs[r][4]) = 2
DetSizeOK(e) ==
  (e.sr = "Rat" /\ Has(e, "pushed") /\ ExactM(e.pushed) /\ NoEpsArcs(e.pushed))
  => LET S == DetSubsets(e.pushed, 8)
     IN Cardinality(S) > 8 \/ Cardinality(AllUsed(e.sr, e.out)) = Cardinality(S)

(* the language of M up to L is exactly the listed entries *)
LangOK(e) ==
  {<<s, AWeight(e.sr, e.M, s)>> : s \in {s \in Strs(Sig(e), e.L) : AWeight(e.sr, e.M, s) # Zero(e.sr)}}
     = {<<e.entries[i][1], e.entries[i][2]>> : i \in DOMAIN e.entries}

(* automaton -> grammar *)
ToCfgOK(e) == \A s \in Strs(Sig(e), e.L) : Weight(e.sr, e.G, s) = AWeight(e.sr, e.M, s)

(* ---- byte level (UTF-8) ---- *)
(* code point -> its UTF-8 byte values *)
Utf8(c) ==
  IF c < 128 THEN <<c>>
  ELSE IF c < 2048 THEN <<192 + (c \div 64), 128 + (c % 64)>>
  ELSE IF c < 65536 THEN <<224 + (c \div 4096), 128 + ((c \div 64) % 64), 128 + (c % 64)>>
  ELSE <<240 + (c \div 262144), 128 + ((c \div 4096) % 64), 128 + ((c \div 64) % 64), 128 + (c % 64)>>
RECURSIVE Flat(_)
Flat(q) == IF q = <<>> THEN <<>> ELSE Head(q) \o Flat(Tail(q))
(* e.cps: sequence of <<symbol name, sequence of code points>>; e.bytes: sequence of <<byte name, value>> *)
CpsOf(e, a) == e.cps[CHOOSE i \in DOMAIN e.cps : e.cps[i][1] = a][2]
ByteName(e, v) == IF \E i \in DOMAIN e.bytes : e.bytes[i][2] = v
                  THEN e.bytes[CHOOSE i \in DOMAIN e.bytes : e.bytes[i][2] = v][1] ELSE "?"
EncSym(e, a) == LET bs == Flat([j \in DOMAIN CpsOf(e, a) |-> Utf8(CpsOf(e, a)[j])])
                IN [j \in DOMAIN bs |-> ByteName(e, bs[j])]
EncStr(e, s) == Flat([j \in DOMAIN s |-> EncSym(e, s[j])])
(* total weight of the symbol strings whose encoding is the byte string bs *)
ByteWeightA(e, bs) ==
  LET S == {s \in Strs(Sig(e), Len(bs)) : EncStr(e, s) = bs}
  IN SumOver(e.sr, S, [s \in S |-> AWeight(e.sr, e.M, s)])
ToBytesOK(e) ==
  \A bs \in Strs({e.bytes[i][1] : i \in DOMAIN e.bytes}, e.L) :
     AWeight(e.sr, e.out, bs) = ByteWeightA(e, bs)
ByteWeightG(e, bs) ==
  LET S == {s \in Strs(Sig(e), Len(bs)) : EncStr(e, s) = bs}
  IN SumOver(e.sr, S, [s \in S |-> Weight(e.sr, e.G, s)])
GToBytesOK(e) ==
  \A bs \in Strs({e.bytes[i][1] : i \in DOMAIN e.bytes}, e.L) :
     Weight(e.sr, e.out, bs) = ByteWeightG(e, bs)

(* ---- transducers ---- *)
TCallOK(e) == WEq(e.sr, TWeight(e.sr, e.T, e.x, e.y), e.res)
Pairs(e) == {<<x, z>> : x \in Strs(SetOf(e.sigmaA), e.L), z \in Strs(SetOf(e.sigmaB), e.L)}
TComposeOK(e) ==
  \A xz \in Pairs(e) : TWeight(e.sr, e.out, xz[1], xz[2]) = FilterCompose(e.sr, e.A, e.B, xz[1], xz[2])
(* where one side is acyclic the intermediate string is bounded: compare with the definition *)
TComposeDefOK(e) ==
  (TAcyclic(e.A) \/ TAcyclic(e.B)) =>
   \A xz \in Pairs(e) :
     TWeight(e.sr, e.out, xz[1], xz[2]) =
        RelCompose(e.sr, e.A, e.B, xz[1], xz[2], SetOf(e.sigmaM),
                   IF TAcyclic(e.A) THEN Len(e.A.arcs) ELSE Len(e.B.arcs))
TSameOK(e) ==
  \A xz \in Pairs(e) :
    LET x == xz[1]  z == xz[2] IN
    CASE e.fn = "transpose" -> TWeight(e.sr, e.out, z, x) = TWeight(e.sr, e.T, x, z)
      [] e.fn = "diag" -> TWeight(e.sr, e.out, x, z) = (IF x = z THEN AWeight(e.sr, e.M, x) ELSE Zero(e.sr))
      [] e.fn = "pairs" ->      \* from_pairs / from_string: number of listed pairs equal to (x, z)
           TWeight(e.sr, e.out, x, z) =
              SumSeq(e.sr, [i \in DOMAIN e.pairs |-> IF e.pairs[i] = <<x, z>> THEN One(e.sr) ELSE Zero(e.sr)])
      [] e.fn = "xsec_in" -> AWeight(e.sr, e.out, z) = TWeight(e.sr, e.T, e.fix, z)     \* f(x, None)(z)
      [] e.fn = "xsec_out" -> AWeight(e.sr, e.out, x) = TWeight(e.sr, e.T, x, e.fix)    \* f(None, y)(x)
      [] e.fn = "prune" ->       \* prune_to_alphabet(A, B): only arcs whose labels are allowed (epsilon included) remain
           TWeight(e.sr, e.out, x, z) =
             TWeight(e.sr, [n |-> e.T.n, I |-> e.T.I, F |-> e.T.F,
                            arcs |-> SelectSeq(e.T.arcs, LAMBDA r : r[2] \in SetOf(e.keepA) /\ r[3] \in SetOf(e.keepB))], x, z)
      [] e.fn = "coarsen" ->      \* merging states only adds paths: every related pair is related by the coarse machine
           (TWeight(e.sr, e.T, x, z) # Zero(e.sr)) => TWeight("Bool", e.out, x, z) = 1
      [] e.fn = "project0" -> AWeight(e.sr, e.out, x) = AWeight(e.sr, Project(e.T, 0), x)
      [] e.fn = "project1" -> AWeight(e.sr, e.out, z) = AWeight(e.sr, Project(e.T, 1), z)

(* ---- grammar o transducer ---- *)
GComposeOK(e) == \A y \in Strs(SetOf(e.sigmaB), e.L) : Weight(e.sr, e.out, y) = ComposeW(e.sr, e.G, e.T, y)
GComposeDefOK(e) ==
  NoDeletion(e.T) => \A y \in Strs(SetOf(e.sigmaB), e.L) :
                        Weight(e.sr, e.out, y) = ComposeDef(e.sr, e.G, e.T, y, Len(y))
GCallOK(e) == WEq(e.sr, ComposeW(e.sr, e.G, e.T, e.y), e.res)
(* truncate_length(n): strings within the bound keep their weight, longer ones get zero *)
TruncateOK(e) == \A s \in Strs(Sig(e), e.L) :
   Weight(e.sr, e.out, s) = (IF Len(s) <= e.n THEN Weight(e.sr, e.G, s) ELSE Zero(e.sr))

(* exactness of the oracle on the INPUTS of a call (a generator obligation) ... *)
InDomainIn(e) ==
  CASE e.op \in {"wcall"} -> AExact(e.sr, e.M)
    [] e.op = "wtotal" -> ATotalExact(e.sr, e.M)
    [] e.op = "wop" -> AExact(e.sr, e.A) /\ (Has(e, "B") => AExact(e.sr, e.B))
                       /\ (e.fn \in {"star", "plus"} => IsFinSR(e.sr) \/ StarDefined(e.sr, AWeight(e.sr, e.A, <<>>)))
    [] e.op = "wlang" -> TRUE
    [] e.op = "tocfg" -> AExact(e.sr, e.M)
    [] e.op = "tobytes" -> AExact(e.sr, e.M)
    [] e.op = "gtobytes" -> InsideExact(e.sr, e.G)
    [] e.op = "tcall" -> TExact(e.sr, e.T)
    [] e.op = "tcompose" -> IsFinSR(e.sr) \/ (TAcyclic(e.A) /\ TAcyclic(e.B))
    [] e.op = "tsame" -> IsFinSR(e.sr) \/ ((Has(e, "T") => TExact(e.sr, e.T)) /\ (Has(e, "M") => AExact(e.sr, e.M)))
    [] e.op \in {"gcompose", "gcall"} -> ComposeExact(e.sr, e.G, e.T)
    [] e.op = "truncate" -> InsideExact(e.sr, e.G)
    [] OTHER -> TRUE
(* ... and on the object the CODE produced: if that leaves the exact domain (an epsilon / unary cycle over the      *)
(* rationals) the event is not judged (counted by the harness), never silently accepted and never a machinery error *)
InDomainOut(e) ==
  CASE e.op = "wop" -> AExact(e.sr, e.out)
    [] e.op = "wlang" -> AExact(e.sr, e.M)
    [] e.op = "tocfg" -> InsideExact(e.sr, e.G)
    [] e.op = "tobytes" -> AExact(e.sr, e.out)
    [] e.op = "gtobytes" -> InsideExact(e.sr, e.out)
    [] e.op = "tcompose" -> IsFinSR(e.sr) \/ TExact(e.sr, e.out)
    [] e.op = "tsame" -> IsFinSR(e.sr) \/ e.fn = "coarsen"
                         \/ (IF e.fn \in {"transpose", "diag", "pairs", "prune"} THEN TExact(e.sr, e.out)
                                            ELSE AExact(e.sr, e.out))
    [] e.op = "gcompose" -> InsideExact(e.sr, e.out)
    [] e.op = "truncate" -> InsideExact(e.sr, e.out)
    [] OTHER -> TRUE

Failed(e) ==
  IF Has(e, "exc") THEN {"raised"}
  ELSE IF ~InDomainIn(e) THEN {"OUTDOM"}
  ELSE IF ~InDomainOut(e) THEN {"OUTSKIP"}
  ELSE
  CASE e.op = "wcall" -> IF CallOK(e) THEN {} ELSE {"pathsum"}
    [] e.op = "wtotal" -> IF TotalOK(e) THEN {} ELSE {"total"}
    [] e.op = "wop" -> (IF OpWeightsOK(e) THEN {} ELSE {IF e.fn = "threshold" THEN "threshold-conformance" ELSE "language"})
                       \cup (IF CallsOK(e) THEN {} ELSE {"pathsum"})
                       \cup FailedPostsA(e) \cup (IF DetSizeOK(e) THEN {} ELSE {"detsize-conformance"})
    [] e.op = "wlang" -> IF LangOK(e) THEN {} ELSE {"language"}
    [] e.op = "tocfg" -> IF ToCfgOK(e) THEN {} ELSE {"tocfg"}
    [] e.op = "tobytes" -> (IF ToBytesOK(e) THEN {} ELSE {"bytes"}) \cup (IF CallsOK(e) THEN {} ELSE {"bytes"})
    [] e.op = "gtobytes" -> IF GToBytesOK(e) THEN {} ELSE {"bytes"}
    [] e.op = "tcall" -> IF TCallOK(e) THEN {} ELSE {"relation"}
    [] e.op = "tcompose" -> (IF TComposeOK(e) THEN {} ELSE {"compose"})
                            \cup (IF TComposeDefOK(e) THEN {} ELSE {"composedef"})
    [] e.op = "tsame" -> IF TSameOK(e) THEN {} ELSE {IF e.fn = "coarsen" THEN "coarsen-conformance" ELSE "relation"}
    [] e.op = "gcompose" -> (IF GComposeOK(e) THEN {} ELSE {"compose"})
                            \cup (IF GComposeDefOK(e) THEN {} ELSE {"composedef"})
    [] e.op = "gcall" -> IF GCallOK(e) THEN {} ELSE {"compose"}
    [] e.op = "truncate" -> IF TruncateOK(e) THEN {} ELSE {"truncate"}

VARIABLES sh, l
Init == sh \in 0 .. (NSh - 1) /\ l = sh + 1
Next == /\ l <= Len(Trace)
        /\ TLCSet(7, 0)                   \* set by Semirings.tla when the oracle's arithmetic leaves the 32-bit range
        /\ LET e == Trace[l]
               f == Failed(e)
           IN IF f = {} THEN (IF TLCGet(7) = 0 THEN TRUE ELSE PrintT(<<"REJECT", e.tid, {"OUTSKIP"}>>))
              ELSE PrintT(<<"REJECT", e.tid, IF TLCGet(7) = 0 THEN f ELSE f \cup {"OUTSKIP"}>>)
        /\ l' = l + NSh
        /\ sh' = sh
=============================================================================
