--------------------------- MODULE MCGrammarSem ---------------------------
(***************************************************************************)
(* Model checking of the semantic core itself (DESIGN 3.2): the oracles    *)
(* that judge the code are tied to the literal definitions in the property *)
(* statements, on every grammar of a small family.                         *)
(*                                                                         *)
(*   InsideIsTreeSum   Weight(G, s) = sum over derivation TREES of s of    *)
(*                     the product of rule weights, by explicit            *)
(*                     enumeration of trees up to a height at which the    *)
(*                     saturating sum is stable (C02)                      *)
(*   PrefixRecurrence  PW(p) = W(p) + sum_t PW(p t): every extension of p  *)
(*                     is p itself or extends exactly one p.t (C01, C03)   *)
(*   PrefixEmpty       PW(<<>>) = TreeSum[S]                       (C03)   *)
(*   PrefixBounded     PW(p) >= sum of W(s) over s extending p up to L,    *)
(*                     with equality when the grammar is acyclic (C03)     *)
(*   TotalIsSum        TreeSum[S] = sum_s W(s) on acyclic grammars (C08)   *)
(*                                                                         *)
(* The family is also written out as ndjson so that the SAME grammars are  *)
(* replayed into the real code (direction C).                              *)
(***************************************************************************)
EXTENDS Grammars, FiniteSetsExt, SequencesExt, Json, IOUtils

CONSTANTS NTS,        \* nonterminal names, e.g. {"S", "A"}
          TS,         \* terminal names
          MAXBODY,    \* longest rule body
          MAXRULES,   \* at most this many rules (a set; duplicates are covered by weights)
          WEIGHTS,    \* rule weights
          SRNAME, L, H

RatWeights == {<<1, 2>>, <<1, 1>>}      \* for configurations over the rationals (a cfg file cannot spell tuples)
Syms == NTS \cup TS
BodiesOf(n) == IF n = 0 THEN {<<>>} ELSE {b \in UNION {[1 .. k -> Syms] : k \in 1 .. n} : TRUE} \cup {<<>>}
Pool == {[w |-> w, h |-> h, b |-> b] : w \in WEIGHTS, h \in NTS, b \in BodiesOf(MAXBODY)}
RuleSets == UNION {kSubset(j, Pool) : j \in 0 .. MAXRULES}
Fam == {[S |-> "S", V |-> SetToSeq(TS), rules |-> SetToSeq(rs)] : rs \in RuleSets}

(* ---- literal derivation trees ---- *)
(* a tree is [r, t, k]: an inner node applies rule r (t = "") and has one kid per body symbol; a leaf has *)
(* r = 0, the terminal t and no kid                                                                       *)
RECURSIVE Trees(_, _, _)
Trees(G, X, h) ==
  IF X \in TermSet(G) THEN {[r |-> 0, t |-> X, k |-> <<>>]}
  ELSE IF h = 0 THEN {}
  ELSE UNION {
        LET b == G.rules[r].b
            RECURSIVE Kids(_)
            Kids(j) == IF j > Len(b) THEN {<<>>}
                       ELSE {<<kd>> \o rest : kd \in Trees(G, b[j], h - 1), rest \in Kids(j + 1)}
        IN {[r |-> r, t |-> "", k |-> ks] : ks \in Kids(1)}
        : r \in {r \in DOMAIN G.rules : G.rules[r].h = X}}
RECURSIVE Yield(_)
Yield(t) == IF t.r = 0 THEN <<t.t>>
            ELSE LET ks == t.k
                     RECURSIVE Cat(_)
                     Cat(j) == IF j > Len(ks) THEN <<>> ELSE Yield(ks[j]) \o Cat(j + 1)
                 IN Cat(1)
RECURSIVE TreeW(_, _, _)
TreeW(sr, G, t) == IF t.r = 0 THEN One(sr)
                   ELSE LET ks == t.k
                            RECURSIVE P(_)
                            P(j) == IF j > Len(ks) THEN One(sr) ELSE Mul(sr, TreeW(sr, G, ks[j]), P(j + 1))
                        IN Mul(sr, G.rules[t.r].w, P(1))
TreeSumOf(sr, G, s, h) ==
  LET D == {t \in Trees(G, G.S, h) : Yield(t) = s}
  IN SumOver(sr, D, [t \in D |-> TreeW(sr, G, t)])

VARIABLES g, sh
Dummy == [S |-> "S", V |-> SetToSeq(TS), rules |-> <<>>]
FamSeq == SetToSeq(Fam)
NShards == 16
(* 16 initial states; each explores its slice of the family, so that all workers share the work *)
Init == g = Dummy /\ sh \in 0 .. (NShards - 1)
Next == /\ sh < NShards
        /\ \E i \in {i \in DOMAIN FamSeq : i % NShards = sh} : g' = FamSeq[i]
        /\ sh' = NShards

Acyclic(G) == ~HasCycle(DepEdges(G))
StrsL == Strs(TS, L)

(* explicit tree enumeration agrees with the least fixed point: on acyclic grammars exactly (height bound = *)
(* number of nonterminals); in general the trees up to height H give a lower bound that the LFP dominates     *)
InsideIsTreeSum ==
  \A s \in Strs(TS, 2) :
     IF Acyclic(g) THEN Weight(SRNAME, g, s) = TreeSumOf(SRNAME, g, s, Cardinality(NTS) + 1)
     ELSE TreeSumOf(SRNAME, g, s, H) <= Weight(SRNAME, g, s)      \* trees up to height H: a lower bound
PrefixRecurrence ==
  \A p \in Strs(TS, L - 1) :
     PrefixWeight(SRNAME, g, p) =
        Add(SRNAME, Weight(SRNAME, g, p),
            SumOver(SRNAME, TS, [t \in TS |-> PrefixWeight(SRNAME, g, Append(p, t))]))
PrefixEmpty == PrefixWeight(SRNAME, g, <<>>) = TreeSum(SRNAME, g)[g.S]

PrefixBounded ==
  \A p \in Strs(TS, 1) :
     LET ext == {s \in Strs(TS, L + 1) : IsPrefix(p, s)}
         lo == SumOver(SRNAME, ext, [s \in ext |-> Weight(SRNAME, g, s)])
     IN lo <= PrefixWeight(SRNAME, g, p)
TotalIsSum ==
  Acyclic(g) =>
    LET n == Cardinality(NTS)
        maxlen == MAXBODY * MAXBODY * MAXBODY
        S2 == Strs(TS, IF n <= 2 THEN MAXBODY * MAXBODY ELSE maxlen)
    IN TreeSum(SRNAME, g)[g.S] = SumOver(SRNAME, S2, [s \in S2 |-> Weight(SRNAME, g, s)])

(* the closed form used for long contexts agrees with the general oracle (rationals, finitely many derivations) *)
RLClosedForm ==
  (DetRL(g) /\ ProperRL(SRNAME, g) /\ Acyclic(g) /\ SRNAME = "Rat") =>
     \A ctx \in Strs(TS, 2) :
        LET pw == PrefixWeight(SRNAME, g, ctx)  X == StateAfter(g, ctx) IN
        IF pw = Zero(SRNAME) THEN X = DEAD \/ TRUE
        ELSE /\ \A t \in TS : RDiv(PrefixWeight(SRNAME, g, Append(ctx, t)), pw) = RLNext(SRNAME, g, X, t)
             /\ RDiv(Weight(SRNAME, g, ctx), pw) = RLNext(SRNAME, g, X, "")

RLTotalOne == (DetRL(g) /\ ProperRL(SRNAME, g) /\ Acyclic(g) /\ SRNAME = "Rat") =>
                 \A X \in NTs(g) : TreeSum(SRNAME, g)[X] = One(SRNAME)

(* write the family out for the replay into the code *)
Dump == IF "FAMILY_FILE" \in DOMAIN IOEnv
        THEN ndJsonSerialize(IOEnv.FAMILY_FILE, FamSeq) ELSE TRUE
ASSUME Dump
=============================================================================
