------------------------------- MODULE Lark -------------------------------
(***************************************************************************)
(* Reference semantics of the character-level language of a Lark grammar   *)
(* (C19).  A Lark grammar (after the harness has rendered it to text) is   *)
(*   [start, rules, terms, ignore]                                         *)
(*   rules   sequence of [h, alts]; alts a sequence of alternatives, each  *)
(*           a sequence of [s, op] with op in {"", "?", "*", "+"}          *)
(*   terms   sequence of [name, re]   (re: a Regex.tla tree)               *)
(*   ignore  sequence of ignored terminal names                            *)
(*                                                                         *)
(* A text is accepted iff it is obtained from a terminal sequence          *)
(* derivable in the rule grammar by replacing each terminal with a string  *)
(* matching its pattern, optionally preceded by ONE match of an ignored    *)
(* terminal when ignore directives are present (ignored terminals          *)
(* themselves take no such prefix).                                        *)
(***************************************************************************)
EXTENDS Regex

TermNames(LG) == {LG.terms[i].name : i \in DOMAIN LG.terms}
TermRe(LG, T) == LG.terms[CHOOSE i \in DOMAIN LG.terms : LG.terms[i].name = T].re
RuleHeads(LG) == {LG.rules[i].h : i \in DOMAIN LG.rules}
Ignored(LG) == SetOfQ(LG.ignore)

PlainTerm(LG, T, s, i, k, cs, fold) == RxM(TermRe(LG, T), s, i, k, cs, fold, FALSE)
IgnoreMatch(LG, s, i, j, cs, fold) == \E T \in Ignored(LG) : PlainTerm(LG, T, s, i, j, cs, fold)
TermItem(LG, T, s, i, k, cs, fold) ==
  IF Ignored(LG) = {} \/ T \in Ignored(LG) THEN PlainTerm(LG, T, s, i, k, cs, fold)
  ELSE \E j \in i .. k : (j = i \/ IgnoreMatch(LG, s, i, j, cs, fold)) /\ PlainTerm(LG, T, s, j, k, cs, fold)

SymItem(LG, s, ch, tm, y, i, k) == IF y \in TermNames(LG) THEN tm[<<y, i, k>>]
                                   ELSE IF y \in RuleHeads(LG) THEN ch[<<y, i, k>>] ELSE FALSE

RECURSIVE SeqMatch(_, _, _, _, _, _, _)
SeqMatch(LG, s, ch, tm, seq, i, k) ==
  IF seq = <<>> THEN i = k
  ELSE LET y == Head(seq)
           rest == Tail(seq)
           one(a, b) == SymItem(LG, s, ch, tm, y.s, a, b)
       IN CASE y.op = "" -> \E j \in i .. k : one(i, j) /\ SeqMatch(LG, s, ch, tm, rest, j, k)
            [] y.op = "?" -> SeqMatch(LG, s, ch, tm, rest, i, k)
                             \/ \E j \in i .. k : one(i, j) /\ SeqMatch(LG, s, ch, tm, rest, j, k)
            [] y.op = "*" -> SeqMatch(LG, s, ch, tm, rest, i, k)
                             \/ \E j \in (i + 1) .. k : one(i, j) /\ SeqMatch(LG, s, ch, tm, seq, j, k)
            [] y.op = "+" -> \E j \in i .. k : one(i, j)
                                /\ SeqMatch(LG, s, ch, tm, <<[s |-> y.s, op |-> "*"]>> \o rest, j, k)

LItems(LG, n) == {<<X, i, k>> : X \in RuleHeads(LG), i \in 0 .. n, k \in 0 .. n}
LStepB(LG, s, ch, tm) ==
  [it \in LItems(LG, Len(s)) |->
     it[2] <= it[3] /\
     \E r \in DOMAIN LG.rules : LG.rules[r].h = it[1] /\
        \E a \in DOMAIN LG.rules[r].alts : SeqMatch(LG, s, ch, tm, LG.rules[r].alts[a], it[2], it[3])]
RECURSIVE LLfpB(_, _, _, _)
LLfpB(LG, s, ch, tm) == LET nx == LStepB(LG, s, ch, tm) IN IF nx = ch THEN ch ELSE LLfpB(LG, s, nx, tm)

CharAccepts(LG, s, cs, fold) ==
  LET n == Len(s)
      tm == [it \in {<<T, i, k>> : T \in TermNames(LG), i \in 0 .. n, k \in 0 .. n} |->
                it[2] <= it[3] /\ TermItem(LG, it[1], s, it[2], it[3], cs, fold)]
      ch == LLfpB(LG, s, [it \in LItems(LG, n) |-> FALSE], tm)
  IN ch[<<LG.start, 0, n>>]
CharLang(LG, cs, fold, L) == {s \in RxStrs(cs, L) : CharAccepts(LG, s, cs, fold)}
=============================================================================
