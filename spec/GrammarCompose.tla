-------------------------- MODULE GrammarCompose --------------------------
(***************************************************************************)
(* Reference semantics of grammar-transducer composition (C09):            *)
(*                                                                         *)
(*    (G o T)(y) = sum over input strings x of  G(x) * T(x, y)             *)
(*                                                                         *)
(* The sum ranges over infinitely many x when T deletes input.  It is      *)
(* written as one least fixed point over items <<p, X, q, i, k>>:          *)
(* "X derives some x, and T goes from p to q reading exactly x (with       *)
(* epsilon-input arcs allowed before each symbol) while writing            *)
(* y[i+1..k]".  Trailing epsilon-input arcs are added at the top.  In a    *)
(* finite semiring TLC reaches the fixed point, so deletions, insertions   *)
(* and epsilon cycles are summed exactly.  ComposeDef is the literal       *)
(* definition with a length bound on x, used where T cannot delete.        *)
(***************************************************************************)
EXTENDS Grammars, Automata

(* epsilon-input-only paths of T from p to q writing y[i+1..k] *)
EItems(Tm, m) == {<<p, q, i, k>> : p \in St(Tm), q \in St(Tm), i \in 0 .. m, k \in 0 .. m}
EStep(sr, Tm, y, v) ==
  [it \in EItems(Tm, Len(y)) |->
    LET p == it[1]  q == it[2]  i == it[3]  k == it[4] IN
    IF i > k THEN Zero(sr) ELSE
    Add(sr, IF p = q /\ i = k THEN One(sr) ELSE Zero(sr),
        SumSeq(sr, [r \in DOMAIN Tm.arcs |-> LET e == Tm.arcs[r] IN
           IF e[4] # q \/ e[2] # EPS THEN Zero(sr)
           ELSE IF e[3] = EPS THEN Mul(sr, v[<<p, e[1], i, k>>], e[5])
           ELSE IF k > i /\ y[k] = e[3] THEN Mul(sr, v[<<p, e[1], i, k - 1>>], e[5])
           ELSE Zero(sr)]))]
RECURSIVE ELfp(_, _, _, _)
ELfp(sr, Tm, y, v) == LET nx == EStep(sr, Tm, y, v) IN IF nx = v THEN v ELSE ELfp(sr, Tm, y, nx)
EpsPaths(sr, Tm, y) == ELfp(sr, Tm, y, [it \in EItems(Tm, Len(y)) |-> Zero(sr)])

(* eps-input paths followed by one arc reading the terminal a *)
TermItem(sr, Tm, y, E, a, p, q, i, k) ==
  SumSeq(sr, [r \in DOMAIN Tm.arcs |-> LET e == Tm.arcs[r] IN
     IF e[4] # q \/ e[2] # a THEN Zero(sr)
     ELSE IF e[3] = EPS THEN Mul(sr, E[<<p, e[1], i, k>>], e[5])
     ELSE IF k > i /\ y[k] = e[3] THEN Mul(sr, E[<<p, e[1], i, k - 1>>], e[5])
     ELSE Zero(sr)])

GItems(N, Tm, m) == {<<p, X, q, i, k>> : p \in St(Tm), X \in N, q \in St(Tm), i \in 0 .. m, k \in 0 .. m}

SymItem(sr, Tg, Tm, y, E, ch, s, p, q, i, k) ==
  IF s \notin Tg THEN ch[<<p, s, q, i, k>>] ELSE TermItem(sr, Tm, y, E, s, p, q, i, k)

RECURSIVE BodyItem(_, _, _, _, _, _, _, _, _, _, _)
BodyItem(sr, Tg, Tm, y, E, ch, body, p, q, i, k) ==
  IF body = <<>> THEN (IF p = q /\ i = k THEN One(sr) ELSE Zero(sr))
  ELSE IF Len(body) = 1 THEN SymItem(sr, Tg, Tm, y, E, ch, body[1], p, q, i, k)
  ELSE SumSeq(sr, [mq \in 1 .. Tm.n |->
         SumRange(sr, [j \in i .. k |->
            LET a == SymItem(sr, Tg, Tm, y, E, ch, body[1], p, mq - 1, i, j)
            IN IF a = Zero(sr) THEN a
               ELSE Mul(sr, a, BodyItem(sr, Tg, Tm, y, E, ch, Tail(body), mq - 1, q, j, k))], i, k)])

GStep(sr, G, Tg, N, Tm, y, E, ch) ==
  [it \in GItems(N, Tm, Len(y)) |->
    IF it[4] > it[5] THEN Zero(sr) ELSE
    SumSeq(sr, [r \in DOMAIN G.rules |->
       IF G.rules[r].h = it[2]
       THEN Mul(sr, G.rules[r].w, BodyItem(sr, Tg, Tm, y, E, ch, G.rules[r].b, it[1], it[3], it[4], it[5]))
       ELSE Zero(sr)])]
RECURSIVE GLfp(_, _, _, _, _, _, _, _)
GLfp(sr, G, Tg, N, Tm, y, E, ch) ==
  LET nx == GStep(sr, G, Tg, N, Tm, y, E, ch) IN IF nx = ch THEN ch ELSE GLfp(sr, G, Tg, N, Tm, y, E, nx)

ComposeW(sr, G, Tm, y) ==
  LET Tg == TermSet(G)  N == NTs(G)  m == Len(y)
      E == EpsPaths(sr, Tm, y)
      ch == GLfp(sr, G, Tg, N, Tm, y, E, [it \in GItems(N, Tm, m) |-> Zero(sr)])
  IN SumSeq(sr, [a \in DOMAIN Tm.I |-> SumSeq(sr, [b \in DOMAIN Tm.F |->
       SumSeq(sr, [mq \in 1 .. Tm.n |-> SumRange(sr, [j \in 0 .. m |->
          Mul(sr, Mul(sr, Mul(sr, Tm.I[a][2], ch[<<Tm.I[a][1], G.S, mq - 1, 0, j>>]),
                      E[<<mq - 1, Tm.F[b][1], j, m>>]), Tm.F[b][2])], 0, m)])])])

(* the definition, with the input strings bounded by L *)
ComposeDef(sr, G, Tm, y, L) ==
  LET X == Strs(TermSet(G), L)
  IN SumOver(sr, X, [x \in X |-> Mul(sr, Weight(sr, G, x), TWeight(sr, Tm, x, y))])

(* every arc that reads input also writes output: |x| <= |y|, so the bound |y| is exact *)
NoDeletion(Tm) == \A r \in DOMAIN Tm.arcs : Tm.arcs[r][2] # EPS => Tm.arcs[r][3] # EPS

ComposeExact(sr, G, Tm) == IsFinSR(sr) \/ (InsideExact(sr, G) /\ TAcyclic(Tm) /\ ~HasCycle(DepEdges(G)))
=============================================================================
