----------------------------- MODULE FieldWfsa -----------------------------
(***************************************************************************)
(* Decision procedures for real-weighted automata (C14), exact over the    *)
(* rationals.                                                              *)
(*   Equiv(A, B)     A and B assign equal weights to ALL strings.  Two     *)
(*                   automata with nA and nB states are equivalent iff     *)
(*                   they agree on all strings shorter than nA + nB (the   *)
(*                   classical linear-algebra bound).                      *)
(*   HankelRank(A)   rank of the Hankel matrix H[u, v] = A(u v); for an    *)
(*                   n-state automaton the block |u|, |v| < n has full     *)
(*                   rank.  Computed by Gaussian elimination.              *)
(***************************************************************************)
EXTENDS Automata, SequencesExt

Equiv(A, B, Sigma) ==
  \A s \in Strs(Sigma, A.n + B.n - 1) : AWeight("Rat", A, s) = AWeight("Rat", B, s)
DistinguishedBy(A, B, s) == AWeight("Rat", A, s) # AWeight("Rat", B, s)

(* rank of a sequence of rational row vectors *)
RowZero(r) == \A j \in DOMAIN r : r[j] = RZero
Pivot(r) == CHOOSE j \in DOMAIN r : r[j] # RZero /\ \A m \in DOMAIN r : m < j => r[m] = RZero
Elim(r, piv, p) ==       \* r - (r[p] / piv[p]) * piv
  IF r[p] = RZero THEN r
  ELSE LET f == RDiv(r[p], piv[p]) IN [j \in DOMAIN r |-> RSub(r[j], RMul(f, piv[j]))]
RECURSIVE Rank(_)
Rank(rows) ==
  IF rows = <<>> THEN 0
  ELSE LET r == Head(rows) IN
       IF RowZero(r) THEN Rank(Tail(rows))
       ELSE LET p == Pivot(r)
                rest == [i \in DOMAIN Tail(rows) |-> Elim(Tail(rows)[i], r, p)]
            IN 1 + Rank(rest)

HankelRank(A, Sigma) ==
  LET ws == SetToSeq(Strs(Sigma, IF A.n = 0 THEN 0 ELSE A.n - 1))
  IN Rank([u \in DOMAIN ws |-> [v \in DOMAIN ws |-> AWeight("Rat", A, ws[u] \o ws[v])]])
=============================================================================
