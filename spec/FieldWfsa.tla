----------------------------- MODULE FieldWfsa -----------------------------
(***************************************************************************)
(* Decision procedures for real-weighted automata (C14), exact over the    *)
(* rationals.                                                              *)
(*   Equiv(A, B)     A and B assign equal weights to ALL strings.  Two     *)
(*                   automata with nA and nB states are equivalent iff     *)
(*                   they agree on all strings shorter than nA + nB (the   *)
(*                   classical linear-algebra bound).                      *)
(*   HankelRank(A)   rank of the Hankel matrix H[u, v] = A(u v); for an    *)
(*                   n-state automaton the block |u|, |v| < n has full     *)
(*                   rank.  Computed by Gaussian elimination.              *)
(***************************************************************************)
EXTENDS Automata, SequencesExt

Equiv(A, B, Sigma) ==
  \A s \in Strs(Sigma, A.n + B.n - 1) : AWeight("Rat", A, s) = AWeight("Rat", B, s)
DistinguishedBy(A, B, s) == AWeight("Rat", A, s) # AWeight("Rat", B, s)

(* rank of a sequence of rational row vectors *)
RowZero(r) == \A j \in DOMAIN r : r[j] = RZero
Pivot(r) == CHOOSE j \in DOMAIN r : r[j] # RZero /\ \A m \in DOMAIN r : m < j => r[m] = RZero
Elim(r, piv, p) ==       \* r - (r[p] / piv[p]) * piv
  IF r[p] = RZero THEN r
  ELSE LET f == RDiv(r[p], piv[p]) IN TLCEval([j \in DOMAIN r |-> RSub(r[j], RMul(f, piv[j]))])      \* (eager: see Automata.tla)
RECURSIVE Rank(_)
Rank(rows) ==
  IF rows = <<>> THEN 0
  ELSE LET r == Head(rows) IN
       IF RowZero(r) THEN Rank(Tail(rows))
       ELSE LET p == Pivot(r)
                rest == TLCEval([i \in DOMAIN Tail(rows) |-> Elim(Tail(rows)[i], r, p)])
            IN 1 + Rank(rest)

(* The same rank without the (exponentially large) Hankel block: rank H = rank(F B^T), where the rows of F span the  *)
(* forward vectors alpha_w = I A_w1 ... A_wn and the rows of B the backward vectors beta_w = A_w1 ... A_wn F; both  *)
(* spans are built by closing {I} (resp. {F}) under the symbol matrices with Gaussian reduction (at most n vectors). *)
(* For epsilon-free automata.                                                                                        *)
VecI(A) == TLCEval([q \in 1 .. A.n |-> WI("Rat", A, q - 1)])
VecF(A) == TLCEval([q \in 1 .. A.n |-> WF("Rat", A, q - 1)])
ArcW(A, p, a, q) == SumSeq("Rat", [r \in DOMAIN A.arcs |->
                       IF A.arcs[r][1] = p /\ A.arcs[r][2] = a /\ A.arcs[r][3] = q THEN A.arcs[r][4] ELSE RZero])
StepF(A, v, a) == TLCEval([q \in 1 .. A.n |-> SumSeq("Rat", [p \in 1 .. A.n |-> RMul(v[p], ArcW(A, p - 1, a, q - 1))])])
StepB(A, v, a) == TLCEval([p \in 1 .. A.n |-> SumSeq("Rat", [q \in 1 .. A.n |-> RMul(ArcW(A, p - 1, a, q - 1), v[q])])])
RECURSIVE ReduceBy(_, _)
ReduceBy(v, basis) == IF basis = <<>> THEN v ELSE ReduceBy(Elim(v, Head(basis), Pivot(Head(basis))), Tail(basis))
RECURSIVE CloseSpan(_, _, _, _, _)
CloseSpan(A, syms, fwd, basis, frontier) ==
  IF frontier = <<>> THEN basis
  ELSE LET v == Head(frontier)
           r == ReduceBy(v, basis)
       IN IF RowZero(r) THEN CloseSpan(A, syms, fwd, basis, Tail(frontier))
          ELSE CloseSpan(A, syms, fwd, Append(basis, r),
                         Tail(frontier) \o [i \in DOMAIN syms |-> IF fwd THEN StepF(A, v, syms[i]) ELSE StepB(A, v, syms[i])])
Dot(u, v) == SumSeq("Rat", [i \in DOMAIN u |-> RMul(u[i], v[i])])
HankelRankFast(A) ==
  IF A.n = 0 THEN 0
  ELSE LET syms == SetToSeq(Alphabet(A))
           Fb == CloseSpan(A, syms, TRUE, <<>>, <<VecI(A)>>)
           Bb == CloseSpan(A, syms, FALSE, <<>>, <<VecF(A)>>)
       IN Rank(TLCEval([i \in DOMAIN Fb |-> [j \in DOMAIN Bb |-> Dot(Fb[i], Bb[j])]]))

HankelRank(A, Sigma) ==
  LET ws == SetToSeq(Strs(Sigma, IF A.n = 0 THEN 0 ELSE A.n - 1))
  IN Rank(TLCEval([u \in DOMAIN ws |-> [v \in DOMAIN ws |-> AWeight("Rat", A, ws[u] \o ws[v])]]))
=============================================================================
