---------------------------- MODULE MCAutomata ----------------------------
(***************************************************************************)
(* Model checking of the automaton oracles (DESIGN 3.2) on EVERY automaton *)
(* with two states over {a, eps} (all 256 arc sets x initial x final       *)
(* sets), in Sat3:                                                         *)
(*   ClosedFormAgrees  the path sum as a least fixed point (AWeightLfp)    *)
(*                     equals the closed form through the epsilon closure  *)
(*                     by elimination (AWeightClosed), which is what the   *)
(*                     rational runs use on epsilon cycles                 *)
(*   TotalIsSumOfAll   ATotal dominates the sum of string weights up to L  *)
(*                     and equals it on acyclic machines                   *)
(*   ReverseIsReverse  reversing every arc and swapping I/F reverses the   *)
(*                     language (commutative semiring)                     *)
(***************************************************************************)
EXTENDS Automata, FiniteSetsExt, SequencesExt, Json, IOUtils

CONSTANTS SRNAME, L
sr == SRNAME
States == {0, 1}
ArcPool == {<<p, a, q, 1>> : p \in States, a \in {"a", EPS}, q \in States}

VARIABLES m, sh
FamSeq == SetToSeq({[n |-> 2, I |-> SetToSeq({<<q, 1>> : q \in i}), F |-> SetToSeq({<<q, 1>> : q \in f}), arcs |-> SetToSeq(as)] :
                      i \in (SUBSET States) \ {{}}, f \in (SUBSET States) \ {{}}, as \in SUBSET ArcPool})
NShards == 16
Dummy == [n |-> 2, I |-> <<>>, F |-> <<>>, arcs |-> <<>>]
Init == m = Dummy /\ sh \in 0 .. (NShards - 1)
Next == /\ sh < NShards
        /\ \E k \in {k \in DOMAIN FamSeq : k % NShards = sh} : m' = FamSeq[k]
        /\ sh' = NShards

StrsA == Strs({"a"}, L)
ClosedFormAgrees == \A s \in StrsA : AWeightLfp(sr, m, s) = AWeightClosed(sr, m, s)
TotalIsSumOfAll ==
  LET lo == SumOver(sr, StrsA, [s \in StrsA |-> AWeightLfp(sr, m, s)])
  IN lo <= ATotal(sr, m) /\ (~CyclicA(ArcEdges(m)) => lo = ATotal(sr, m))
RevM == [n |-> m.n, I |-> m.F, F |-> m.I,
         arcs |-> [r \in DOMAIN m.arcs |-> <<m.arcs[r][3], m.arcs[r][2], m.arcs[r][1], m.arcs[r][4]>>]]
ReverseIsReverse == \A s \in StrsA : AWeightLfp(sr, RevM, s) = AWeightLfp(sr, m, Rev(s))

(* write the family out so that the same automata are replayed into the real code (direction C) *)
Dump == IF "FAMILY_FILE" \in DOMAIN IOEnv THEN ndJsonSerialize(IOEnv.FAMILY_FILE, FamSeq) ELSE TRUE
ASSUME Dump
=============================================================================
