------------------------------- MODULE Tarjan -------------------------------
(***************************************************************************)
(* scc_decomposition (genlm/grammar/linear.py): Tarjan's algorithm as a    *)
(* state machine with an explicit call stack.  The recursive generator     *)
(* `dfs' of the code becomes frames [v, todo, num]; one action per step of *)
(* its loop body.  The order in which roots are tried and the order in     *)
(* which the successors of a node are visited are NOT fixed (they come     *)
(* from set iteration in the code): every order is explored.               *)
(*                                                                         *)
(* The graph is given by its successor relation Succ (in the code the      *)
(* successors of v are the nodes with an edge INTO v).                     *)
(***************************************************************************)
EXTENDS Naturals, Sequences, FiniteSets, TLC

CONSTANTS N,        \* nodes are 1 .. N; every successor relation over them with at most MAXE edges is explored
          MAXE

Nodes == 1 .. N
VARIABLES succ,     \* the graph: node -> set of successors (constant along a behaviour)
          lowest,   \* node -> low link (0 = not visited yet)
          stack,    \* sequence of nodes
          trail,    \* set of nodes on the stack
          t,        \* visit counter
          frames,   \* call stack of dfs: sequence of [v, todo, num]
          roots,    \* roots not tried yet
          out       \* emitted components, in order
vars == <<succ, lowest, stack, trail, t, frames, roots, out>>

RECURSIVE CountE(_, _)
CountE(f, v) == IF v > N THEN 0 ELSE Cardinality(f[v]) + CountE(f, v + 1)
Init == /\ succ \in {f \in [Nodes -> SUBSET Nodes] : CountE(f, 1) <= MAXE}
        /\ lowest = [v \in Nodes |-> 0]
        /\ stack = <<>> /\ trail = {} /\ t = 0 /\ frames = <<>>
        /\ roots = Nodes /\ out = <<>>

Min(a, b) == IF a <= b THEN a ELSE b
Top == frames[Len(frames)]

Enter(v) == /\ t' = t + 1
            /\ lowest' = [lowest EXCEPT ![v] = t + 1]
            /\ trail' = trail \cup {v}
            /\ stack' = Append(stack, v)
            /\ frames' = Append(frames, [v |-> v, todo |-> succ[v], num |-> t + 1])

(* for v in roots: if lowest.get(v) is None: yield from dfs(v) *)
TryRoot(v) == /\ frames = <<>> /\ v \in roots
              /\ roots' = roots \ {v}
              /\ IF lowest[v] = 0 THEN Enter(v) /\ UNCHANGED <<succ, out>>
                 ELSE UNCHANGED <<succ, lowest, stack, trail, t, frames, out>>

(* for w in successors(v): one iteration, any remaining w *)
Step(w) == /\ frames # <<>> /\ w \in Top.todo
           /\ IF lowest[w] = 0
              THEN \* recurse; the low link of v is updated when the call returns (Return)
                   /\ t' = t + 1
                   /\ lowest' = [lowest EXCEPT ![w] = t + 1]
                   /\ trail' = trail \cup {w}
                   /\ stack' = Append(stack, w)
                   /\ frames' = Append([frames EXCEPT ![Len(frames)].todo = @ \ {w}],
                                       [v |-> w, todo |-> succ[w], num |-> t + 1])
              ELSE /\ lowest' = IF w \in trail THEN [lowest EXCEPT ![Top.v] = Min(@, lowest[w])] ELSE lowest
                   /\ frames' = [frames EXCEPT ![Len(frames)].todo = @ \ {w}]
                   /\ UNCHANGED <<t, trail, stack>>
           /\ UNCHANGED <<succ, roots, out>>

(* the index in `stack' of node v *)
Pos(v) == CHOOSE i \in DOMAIN stack : stack[i] = v

(* the loop over successors is finished *)
Return == /\ frames # <<>> /\ Top.todo = {}
          /\ LET v == Top.v
                 isRoot == lowest[v] = Top.num
                 p == Pos(v)
                 comp == {stack[i] : i \in p .. Len(stack)}
                 parent == IF Len(frames) > 1 THEN frames[Len(frames) - 1].v ELSE 0
             IN /\ IF isRoot
                   THEN /\ out' = Append(out, comp)
                        /\ stack' = SubSeq(stack, 1, p - 1)
                        /\ trail' = trail \ comp
                   ELSE UNCHANGED <<out, stack, trail>>
                \* back in the caller: lowest[caller] = min(lowest[caller], lowest[v])
                /\ lowest' = IF parent # 0 THEN [lowest EXCEPT ![parent] = Min(@, lowest[v])] ELSE lowest
                /\ frames' = SubSeq(frames, 1, Len(frames) - 1)
          /\ UNCHANGED <<succ, t, roots>>

Next == (\E v \in Nodes : TryRoot(v)) \/ (\E w \in Nodes : Step(w)) \/ Return
Spec == Init /\ [][Next]_vars

Done == frames = <<>> /\ roots = {}

(* reference: strongly connected components of the successor relation *)
ReachT(S0) ==
  LET RECURSIVE Grow(_)
      Grow(S) == LET nx == S \cup UNION {succ[x] : x \in S} IN IF nx = S THEN S ELSE Grow(nx)
  IN Grow(S0)
SCCof(v) == {u \in Nodes : u \in ReachT({v}) /\ v \in ReachT({u})}
Idx(v) == CHOOSE k \in DOMAIN out : v \in out[k]

Partition == Done => /\ {out[k] : k \in DOMAIN out} = {SCCof(v) : v \in Nodes}
                     /\ Len(out) = Cardinality({SCCof(v) : v \in Nodes})
(* a component is emitted after every component it can reach (its successors come first) *)
TopoOrder == Done => \A v \in Nodes : \A w \in succ[v] : Idx(w) <= Idx(v)
(* components are only ever emitted complete *)
EmittedAreSCCs == \A k \in DOMAIN out : \E v \in Nodes : out[k] = SCCof(v)
=============================================================================
