---------------------------- MODULE ParserCache ----------------------------
(***************************************************************************)
(* The memoising incremental parsers (Earley._chart, IncrementalCKY._chart *)
(* and the language models on top of them) as a state machine over the     *)
(* only mutable state they have: the cache  prefix |-> list of columns.    *)
(*                                                                         *)
(* Column identity within one cache epoch is abstracted to "the prefix it  *)
(* was built for": the k-th column of chart(p) IS (same object) the k-th   *)
(* column of chart(Pre(p,k)), and its content is Col(G, Pre(p,k)), a       *)
(* function of the grammar and that prefix only.  So the abstract state is *)
(* just the set of memoised prefixes; what trace validation and the graph  *)
(* walk check on the real objects at every step is                         *)
(*   keys      the cache keys equal the model's set                        *)
(*   shared    chart(p)[k] is chart(Pre(p,k))[k]  (object identity)        *)
(*   content   every live column equals the column a fresh object builds   *)
(*   frozen    every column that was live before the step is unchanged     *)
(*   same      the answer equals the answer of a fresh object              *)
(*   pure      rules, vocabulary and start symbol of the grammar unchanged *)
(***************************************************************************)
EXTENDS Naturals, Sequences, FiniteSets, TLC

CONSTANTS Tok,      \* token alphabet of the model
          MaxLen,   \* longest prefix
          Kind      \* "earley" | "cky": the two parser kinds differ on the empty string

RECURSIVE Seqs(_)
Seqs(n) == IF n = 0 THEN {<<>>}
           ELSE LET P == Seqs(n - 1) IN P \cup {Append(s, a) : s \in {s \in P : Len(s) = n - 1}, a \in Tok}
Prefixes == Seqs(MaxLen)
Pre(p, k) == SubSeq(p, 1, k)
Closure(p) == {Pre(p, k) : k \in 0 .. Len(p)}

VARIABLE cache
vars == <<cache>>

Init == cache = {}

(* parser.chart(p); also p_next(p) / next_token_weights(chart(p)) / LM.p_next(p) *)
Chart(p) == cache' = cache \cup Closure(p)

(* parser(p): Earley returns the empty-string weight without touching the *)
(* cache; IncrementalCKY memoises the empty prefix too                     *)
Call(p) == cache' = IF p = <<>> /\ Kind = "earley" THEN cache ELSE cache \cup Closure(p)

(* LM.__call__(x . eos): queries p_next on the prefixes of x in order and  *)
(* stops as soon as the running product is zero                            *)
LmCall(x) == \E j \in 0 .. Len(x) : cache' = cache \cup Closure(Pre(x, j))

Clear == cache' = {}

Next == \/ \E p \in Prefixes : Chart(p) \/ Call(p) \/ LmCall(p)
        \/ Clear
Spec == Init /\ [][Next]_vars

PrefixClosed == \A p \in cache : Closure(p) \subseteq cache
(* a cached prefix is only ever dropped by Clear *)
OnlyClearForgets == [][cache \subseteq cache' \/ cache' = {}]_vars
=============================================================================
