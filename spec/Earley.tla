------------------------------ MODULE Earley ------------------------------
(***************************************************************************)
(* The column construction of the weighted Earley parser                   *)
(* (genlm/grammar/parse/earley.py and earley_rescaled.py: next_column,     *)
(* PREDICT, _update) as a state machine, one action per critical section:  *)
(*                                                                         *)
(*   Scan      the SCAN loop over prev_col.waiting_for[token]              *)
(*   Pop(jy)   one iteration of the ATTACH loop: Q.pop() and the loop over *)
(*             the customers of the popped complete item.  ANY item of     *)
(*             maximal priority may be popped: the heap's tie-break is not *)
(*             part of the design.                                         *)
(*   Predict   PREDICT(next_col) with the left-corner filter               *)
(*                                                                         *)
(* An instance fixes the (preprocessed: nullary-free, unary-acyclic)       *)
(* grammar, the string, the nonterminal order `ord' and ORDER_MAX `om'     *)
(* exactly as the parser object holds them.  The priority of a complete    *)
(* item (I, X) in column K is  -((K - I) * om + ord[X]).                   *)
(*                                                                         *)
(* _update enqueues a complete item only on its first derivation, so the   *)
(* design is correct iff no contribution reaches an item after it was      *)
(* popped (NoLatePush).                                                    *)
(***************************************************************************)
EXTENDS Grammars

CONSTANTS InstanceSet  \* set of [id, sr, G, ord, om, s]; ord: function nonterminal -> Nat

VARIABLES inst,    \* the instance (constant along a behaviour)
          k,       \* column being built (1 .. Len(s))
          phase,   \* "scan" | "attach" | "done"
          ic,      \* ic[c]: incomplete items <<I, X, rest>> |-> value of column c
          cc,      \* cc[c]: complete items <<I, X>> |-> value of column c
          Q,       \* agenda of column k: set of complete items not yet popped
          popped,  \* complete items of column k already popped
          late,    \* a contribution reached a popped item (the parser would lose it)
          sched    \* history: the pop order taken so far, per column (hidden by the VIEW)

vars == <<inst, k, phase, ic, cc, Q, popped, late, sched>>
view == <<inst, k, phase, ic, cc, Q, popped, late>>

In == inst
G == In.G
sr == In.sr
Str == In.s
N == Len(Str)
T == TermSet(G)
Ord(X) == In.ord[X]
OM == In.om

Prio(I, X) == (k - I) * OM + Ord(X)         \* the code pops the maximum of -Prio

Upd(f, key, v) == IF key \in DOMAIN f THEN [f EXCEPT ![key] = Add(sr, @, v)] ELSE f @@ (key :> v)

(* left-corner closure used by PREDICT *)
LCEdges == {<<G.rules[r].h, G.rules[r].b[1]>> :
               r \in {r \in DOMAIN G.rules : G.rules[r].b # <<>> /\ G.rules[r].b[1] \notin T}}
PredictTargets(keys) == Reach(LCEdges, keys)

RECURSIVE PredictFold(_, _, _, _)
PredictFold(f, c, tg, r) ==
  IF r > Len(G.rules) THEN f
  ELSE LET ru == G.rules[r]
       IN PredictFold(IF ru.h \in tg /\ ru.b # <<>> THEN Upd(f, <<c, ru.h, ru.b>>, ru.w) ELSE f,
                      c, tg, r + 1)
PredictCol(f, c, keys) == PredictFold(f, c, PredictTargets(keys), 1)

WaitingKeys(f) == {Head(it[3]) : it \in DOMAIN f}

(* apply a set of contributions <<I, X, rest, value, source>> to column k *)
RECURSIVE ApplyContribs(_, _, _, _, _)
ApplyContribs(S, i, c, q, lt) ==
  IF S = {} THEN <<i, c, q, lt>>
  ELSE LET x == CHOOSE x \in S : TRUE
           I == x[1]  X == x[2]  rest == x[3]  v == x[4]
       IN IF rest = <<>>
          THEN ApplyContribs(S \ {x}, i, Upd(c, <<I, X>>, v),
                             IF <<I, X>> \in DOMAIN c THEN q ELSE q \cup {<<I, X>>},
                             lt \/ (<<I, X>> \in popped))
          ELSE ApplyContribs(S \ {x}, Upd(i, <<I, X, rest>>, v), c, q, lt)

InitWith(i) ==
        /\ inst = i
        /\ k = 1
        /\ phase = IF Len(inst.s) = 0 THEN "done" ELSE "scan"
        /\ ic = [c \in 0 .. Len(inst.s) |->
                   IF c = 0 THEN PredictCol(<<>>, 0, {inst.G.S}) ELSE <<>>]
        /\ cc = [c \in 0 .. Len(inst.s) |-> <<>>]
        /\ Q = {} /\ popped = {} /\ late = FALSE
        /\ sched = <<>>
Init == \E i \in InstanceSet : InitWith(i)

Scan == /\ phase = "scan"
        /\ LET prev == ic[k - 1]
               S == {<<it[1], it[2], Tail(it[3]), prev[it], it>> :
                        it \in {it \in DOMAIN prev : Head(it[3]) = Str[k]}}
               r == ApplyContribs(S, <<>>, <<>>, {}, FALSE)
           IN /\ ic' = [ic EXCEPT ![k] = r[1]]
              /\ cc' = [cc EXCEPT ![k] = r[2]]
              /\ Q' = r[3]
        /\ popped' = {}
        /\ phase' = "attach"
        /\ UNCHANGED <<inst, k, late, sched>>

CanPop(jy) == jy \in Q /\ \A o \in Q : Prio(jy[1], jy[2]) <= Prio(o[1], o[2])

Pop(jy) ==
  /\ phase = "attach"
  /\ CanPop(jy)
  /\ LET J == jy[1]  Y == jy[2]  y == cc[k][jy]
         colJ == ic[J]
         S == {<<it[1], it[2], Tail(it[3]), Mul(sr, colJ[it], y), it>> :
                  it \in {it \in DOMAIN colJ : Head(it[3]) = Y}}
         r == ApplyContribs(S, ic[k], cc[k], Q \ {jy}, late)
     IN /\ ic' = [ic EXCEPT ![k] = r[1]]
        /\ cc' = [cc EXCEPT ![k] = r[2]]
        /\ Q' = r[3]
        /\ late' = r[4]
  /\ popped' = popped \cup {jy}
  /\ sched' = Append(sched, <<k, jy[1], jy[2]>>)
  /\ UNCHANGED <<inst, k, phase>>

Predict == /\ phase = "attach" /\ Q = {}
           /\ ic' = [ic EXCEPT ![k] = PredictCol(ic[k], k, WaitingKeys(ic[k]))]
           /\ IF k = N THEN phase' = "done" /\ k' = k ELSE phase' = "scan" /\ k' = k + 1
           /\ popped' = {}
           /\ UNCHANGED <<inst, cc, Q, late, sched>>

Next == Scan \/ (\E jy \in Q : Pop(jy)) \/ Predict
Spec == Init /\ [][Next]_vars

---------------------------------------------------------------------------
(* Properties.                                                             *)

NoLatePush == ~late

(* the reference value of every complete item of a finished column *)
Ins == Inside(sr, G, Str)
ItemsCorrect ==
  phase = "done" /\ N > 0 =>
    \A c \in 1 .. N : \A it \in DOMAIN cc[c] : cc[c][it] = Ins[<<it[2], it[1], c>>]
Result == IF N = 0 THEN Zero(sr)
          ELSE IF <<0, G.S>> \in DOMAIN cc[N] THEN cc[N][<<0, G.S>>] ELSE Zero(sr)
ResultCorrect == phase = "done" /\ N > 0 => Result = Weight(sr, G, Str)

(* an item is popped only with its final value *)
PoppedFinal == \A jy \in popped : cc[k][jy] = Ins[<<jy[2], jy[1], k>>]

(* every complete item supported by the inside chart that some waiting item *)
(* can use is present at the end (completeness up to the predictive filter  *)
(* is implied by ResultCorrect for the start item)                          *)

(* ---- next_token_weights: the backward pass over the waiting items of the last column ---- *)
(* q(J, Y): the weight with which completing (J, Y) in the NEXT column completes (0, S) there, through items whose *)
(* remaining body is exactly <<Y>> (unit_Ys); the recursion of _helper.  It ends because an item (I, X, <<Y>>) of   *)
(* column J has I < J, or I = J and X -> Y is a unary rule of a unary-acyclic grammar.                              *)
RECURSIVE QV(_, _)
QV(J, Y) ==
  IF J = 0 /\ Y = G.S THEN One(sr)
  ELSE LET f == ic[J]
           S2 == {it \in DOMAIN f : it[3] = <<Y>>}
       IN SumOver(sr, S2, [it \in S2 |-> Mul(sr, f[it], QV(it[1], it[2]))])
NextTokenWeights ==
  LET f == ic[N] IN
  [t \in T |-> LET S2 == {it \in DOMAIN f : it[3] = <<t>>}
               IN SumOver(sr, S2, [it \in S2 |-> Mul(sr, f[it], QV(it[1], it[2]))])]
(* the weight computed for a next token is the weight the parser assigns to the string extended by that token *)
NextTokenIsExtension ==
  phase = "done" => \A t \in T : NextTokenWeights[t] = Weight(sr, G, Append(Str, t))

(* ---- behaviour output for replay into the real parser ---- *)
(* state constraint that never prunes on good runs but reports and prunes   *)
(* bad ones: a late push, or a wrong final result                           *)
Report ==
  IF late THEN PrintT(<<"BAD", inst.id, "late", sched>>) /\ FALSE
  ELSE IF phase = "done" /\ N > 0 /\ Result # Weight(sr, G, Str)
       THEN PrintT(<<"BAD", inst.id, "result", sched>>) /\ FALSE
  ELSE IF phase = "done" THEN PrintT(<<"GOOD", inst.id, Result, sched>>)
  ELSE TRUE
=============================================================================
