----------------------------- MODULE MCWeights -----------------------------
(***************************************************************************)
(* The closed-semiring laws (C16) on the model carriers of Semirings.tla.  *)
(* One state per (semiring, a, b, c); the invariant is the conjunction of  *)
(* all laws for that triple, so TLC checks every triple of every carrier.  *)
(* The real operators of the shipped classes are tied to these tables by   *)
(* trace validation (TraceLinear.tla, op "semiring").                      *)
(***************************************************************************)
EXTENDS Semirings

SRS == {"Bool", "Sat2", "Sat3", "Rat", "MaxTimes", "MaxPlus", "Expect", "BM2"}

VARIABLES sr, a, b, c
vars == <<sr, a, b, c>>
Init == /\ sr \in SRS
        /\ a \in Carrier(sr) /\ b \in Carrier(sr) /\ c \in Carrier(sr)
Next == UNCHANGED vars

AddAssoc == Add(sr, Add(sr, a, b), c) = Add(sr, a, Add(sr, b, c))
AddComm == Add(sr, a, b) = Add(sr, b, a)
AddZero == Add(sr, a, Zero(sr)) = a /\ Add(sr, Zero(sr), a) = a
MulAssoc == Mul(sr, Mul(sr, a, b), c) = Mul(sr, a, Mul(sr, b, c))
MulOne == Mul(sr, a, One(sr)) = a /\ Mul(sr, One(sr), a) = a
MulComm == sr # "BM2" => Mul(sr, a, b) = Mul(sr, b, a)     \* BM2 is the model's non-commutative domain
DistribL == Mul(sr, a, Add(sr, b, c)) = Add(sr, Mul(sr, a, b), Mul(sr, a, c))
DistribR == Mul(sr, Add(sr, a, b), c) = Add(sr, Mul(sr, a, c), Mul(sr, b, c))
Annihil == Mul(sr, a, Zero(sr)) = Zero(sr) /\ Mul(sr, Zero(sr), a) = Zero(sr)
StarLaw == StarDefined(sr, a) =>
              /\ Star(sr, a) = Add(sr, One(sr), Mul(sr, a, Star(sr, a)))
              /\ Star(sr, a) = Add(sr, One(sr), Mul(sr, Star(sr, a), a))
Laws == AddAssoc /\ AddComm /\ AddZero /\ MulAssoc /\ MulOne /\ MulComm /\ DistribL /\ DistribR /\ Annihil /\ StarLaw
StarExercised == TRUE
=============================================================================
