"""Optional line coverage of the library under the checks (tools/covmap.sh): VERIF_COV=<dir> makes every harness
process (check.py and the generator sub-processes) record which lines of genlm/grammar it executed.  Off by default;
never used by a registered command."""
import atexit
import os


def start():
    d = os.environ.get("VERIF_COV")
    if not d:
        return
    import coverage
    repo = os.environ.get("VERIF_REPO", "/repo")
    cov = coverage.Coverage(source=[os.path.join(repo, "genlm", "grammar")], data_file=os.path.join(d, ".coverage"),
                            data_suffix=True)
    cov.start()

    def stop():
        cov.stop()
        cov.save()
    atexit.register(stop)
