"""Shared generator for C06 (language preservation) and C07 (structural postconditions)."""
import copy

import families as fam
import gops
from project import cfg_proj

MODULE = "TraceGrammar"
FAMILIES = [("Sat3", "any"), ("Sat3", "any"), ("Bool", "any"), ("Rat", "nocycle"), ("Rat", "acyclic"),
            ("MaxTimes", "nocycle"), ("Sat2", "any"), ("RatU", "acyclic"), ("Sat3", "twocycles"), ("Bool", "twocycles"),
            ("Rat", "signed"), ("Log", "acyclic"), ("Sat3", "chord"), ("Bool", "chord")]        # signed real weights: partial sums that cancel to exactly zero
SINGLE = ["trim", "cotrim", "binarize", "separate_start", "separate_terminals", "nullaryremove", "unaryremove",
          "unarycycleremove", "cnf", "renumber", "rename", "rename_int", "text", "unfold", "getitem_start"]
POSTS = {"cnf", "nonullary", "nounary", "nounarycycle", "arity2", "startoff", "preterminal", "trimmed", "cotrimmed", "nozero"}


def options(rng, name, g):
    if name == "nullaryremove":
        return rng.choice([{}, {"binarize": False}, {"trim": False}, {"binarize": True, "trim": True}])
    if name == "unarycycleremove":
        return rng.choice([{}, {"trim": False}])
    if name == "text":
        return {"arrow": rng.choice(["→", "->"])} if gops._text_ok(g) else None
    if name == "unfold":
        cands = [(i, k) for i, r in enumerate(g.rules) for k, y in enumerate(r.body) if y not in g.V]
        if not cands:
            return None
        i, k = rng.choice(cands)
        return {"i": i, "k": k}
    return {}


def special_grammars(R):
    """Hand-picked shapes every run must contain (forced into the family, DESIGN section 6 C07)."""
    S = [
        [(1, "S", ("S",)), (1, "S", ("B",)), (1, "S", ("B",))],                    # non-generating start, S -> S
        [(1, "S", ("A", "S")), (1, "S", ("a",)), (2, "A", ()), (1, "A", ("A",))],     # nullable inside a unary cycle
        [(1, "S", ("A", "B")), (1, "A", ()), (1, "A", ("a",)), (1, "B", ()), (1, "B", ("S",))],
        [(1, "S", ("a", "S", "b")), (1, "S", ()), (1, "C", ("c",))],                  # useless symbol C
        [(1, "S", ("A",)), (1, "A", ("B",)), (1, "B", ("A",)), (1, "B", ("b",))],     # unary cycle below the start
        [(1, "S", ("S", "S")), (1, "S", ("a",)), (1, "S", ())],
        [(1, "S", ("A",)), (1, "A", ("A", "A"))],                                     # empty language, cyclic
        [(1, "S", ("a", "b", "a", "b"))],
    ]
    if R.__name__ not in ("Sat3", "Sat2", "Boolean"):
        S = [S[3], S[7]]
    return [fam.build_cfg(R, rules, V=("a", "b", "c") if any("c" in r[2] for r in rules) else ("a", "b")) for rules in S]


def generate(rng, tier, shard, nshards):
    event = gops.variant_event(rng)
    n = 40 if tier == "quick" else 400
    L = 3
    for gi in range(n):
        srn, shape = FAMILIES[gi % len(FAMILIES)]
        R = gops.SR[srn]
        if gi < 8 and shard == 0:
            sp = special_grammars(R)
            g = sp[gi % len(sp)]
        elif shape == "signed":
            g = fam.signed_cfg(rng, R)
            shape = "acyclic"
        else:
            g = fam.rand_cfg(rng, R, shape=shape, nN=rng.choice([2, 3, 3, 4]), nrules=rng.choice([3, 5, 6]))
        feat = fam.feature_key(g) + ("+signed-weights" if srn == "Rat" and any(r.w < 0 for r in g.rules) else "")
        names = rng.choice(["str", "str", "int", "tuple"])
        if gi % 4 == 0:
            g = fam.permuted(g, rng)
        G, _ = cfg_proj(g)
        gb = gops.build(G, srn, names)
        todo = [[t] for t in SINGLE]
        for _ in range(3 if tier == "quick" else 6):
            todo.append([rng.choice(SINGLE[:-5] + ["rename_int", "text"]) for _ in range(rng.choice([2, 3]))])
        for pipe in todo:
            steps = []
            ok = True
            for name in pipe:
                o = options(rng, name, gb)
                if o is None or (name == "unfold" and len(pipe) > 1):
                    ok = False
                    break
                steps.append([name, o])
            if not ok:
                continue
            args = {"sr": srn, "G": G, "pipeline": steps, "L": L if len(G["rules"]) <= 5 else 2, "names": names}
            f2 = feat
            SAFE = {"separate_start": "separate_start", "separate_terminals": "separate_terminals", "binarize": "binarize",
                    "unaryremove": "unaryremove", "renumber": "renumber"}
            finite_total = srn in ("Sat3", "Sat2", "Bool") or shape == "acyclic"
            if finite_total and len(G["rules"]) >= 2 and all(n_ in SAFE for n_ in pipe) and rng.random() < 0.5:
                # used once, then rules added, then used again - on the same object
                args["late"] = rng.randint(1, len(G["rules"]) - 1)
                args["early"] = [SAFE[n_] for n_ in pipe] + [rng.choice(["null_weight", "has_unary_cycle", "derivative"])]
                f2 = feat + "+rules-added-after-use"
            yield event("transform", args, site="transform/" + "|".join(pipe), feat=f2)


def visible_string(G, sigma, maxlen, first=None):
    """A terminal string that G visibly derives from its start symbol with non-zero weight (a rule S -> t1..tk)."""
    for r in G["rules"]:
        if r["h"] == G["S"] and 1 <= len(r["b"]) <= maxlen and all(y in sigma for y in r["b"]):
            if first is None or r["b"][0] == first:
                return r["b"]
    return None


def selftests(events, rng):
    """An output grammar that lost a visibly derivable string must be rejected ('language'); an output that
    visibly violates a postcondition must be rejected too."""
    out = []
    def unsigned(e):       # with signed weights a visibly derivable string may still have total weight zero
        return not any(isinstance(r["w"], list) and r["w"][0] < 0 for r in e["in"]["rules"])
    cands = [e for e in events if "exc" not in e and e["op"] == "transform" and unsigned(e)
             and visible_string(e["in"], e["sigma"], e["L"])]
    rng.shuffle(cands)
    for e in cands[:10]:
        c = copy.deepcopy(e)
        c["expect"] = "reject"
        c["out"]["rules"] = []
        c["posts"] = []
        out.append(c)
    cands = [e for e in events if "exc" not in e and e["op"] == "transform" and e["out"]["rules"]]
    rng.shuffle(cands)
    for e in cands[:6]:
        c = copy.deepcopy(e)
        c["expect"] = "reject"
        r0 = c["out"]["rules"][0]
        c["out"]["rules"].append({"w": r0["w"], "h": r0["h"], "b": [r0["h"], r0["h"], r0["h"]]})
        c["posts"] = ["arity2", "cnf"]
        out.append(c)
    return out
