"""User semirings defined by the harness (the library supports any Semiring subclass).

Sat(C): the quotient of the counting semiring N-infinity by C == C+1: finite, commutative,
closed, non-idempotent for C >= 2.  A derivation or path that is counted twice or lost
changes the value.

Rat: exact rational field (fractions.Fraction), star(x) = 1/(1-x).
"""
from fractions import Fraction

from common import REPO  # noqa: F401  (puts /repo on sys.path)
from genlm.grammar.semiring import Semiring, Boolean, Float, MaxTimes, MaxPlus, Real, Expectation, Log  # noqa: F401

_sat_cache = {}


def make_sat(C):
    if C in _sat_cache:
        return _sat_cache[C]

    class Sat(Semiring):
        __slots__ = ()

        def __init__(self, x):
            super().__init__(min(int(x), C))

        def __add__(self, o):
            return Sat(self.score + o.score)

        def __mul__(self, o):
            return Sat(self.score * o.score)

        def star(self):
            return Sat(1) if self.score == 0 else Sat(C)

        def __repr__(self):
            return f"{self.score}"

        def __hash__(self):
            return hash(self.score)

        @classmethod
        def from_string(cls, x):
            return cls(int(x))

    Sat.__name__ = f"Sat{C}"
    Sat.zero = Sat(0)
    Sat.one = Sat(1)
    Sat.C = C
    _sat_cache[C] = Sat
    return Sat


Sat2 = make_sat(2)
Sat3 = make_sat(3)


class Rat(Semiring):
    __slots__ = ()

    def __init__(self, x):
        super().__init__(Fraction(x))

    def __add__(self, o):
        return Rat(self.score + o.score)

    def __mul__(self, o):
        return Rat(self.score * o.score)

    def __pow__(self, k):
        return Rat(self.score**k)

    def __truediv__(self, o):
        return Rat(self.score / o.score)

    def star(self):
        return Rat(1 / (1 - self.score))

    def metric(self, o):
        return abs(self.score - o.score)

    def __hash__(self):
        return hash(self.score)

    def __repr__(self):
        return str(self.score)

    @classmethod
    def from_string(cls, x):
        return cls(Fraction(x))


Rat.zero = Rat(0)
Rat.one = Rat(1)


class BM2(Semiring):
    """2x2 Boolean matrices (or, matrix product): finite, closed, idempotent and NON-commutative."""
    __slots__ = ()

    def __init__(self, x):
        super().__init__(tuple(int(bool(v)) for v in x))

    def __add__(self, o):
        return BM2(a | b for a, b in zip(self.score, o.score))

    def __mul__(self, o):
        a, b, c, d = self.score
        e, f, g, h = o.score
        return BM2((a & e | b & g, a & f | b & h, c & e | d & g, c & f | d & h))

    def star(self):
        return BM2.one + self + self * self

    def __hash__(self):
        return hash(self.score)

    def __repr__(self):
        return "M%d%d%d%d" % self.score


BM2.zero = BM2((0, 0, 0, 0))
BM2.one = BM2((1, 0, 0, 1))


def sr_name(R):
    """Name of the model semiring (Semirings.tla) for a library/user semiring class."""
    if R is Boolean:
        return "Bool"
    if R is BM2:
        return "BM2"
    if R is Sat2:
        return "Sat2"
    if R is Sat3:
        return "Sat3"
    if R is Rat or R is Float or R is Real or R is Log:      # Log: the real number exp(score)
        return "Rat"
    if R is MaxTimes:
        return "MaxTimes"
    if R is MaxPlus:
        return "MaxPlus"
    if R is Expectation:
        return "Expect"
    raise ValueError(R)


def mk(R, x):
    """Construct weight x (int / Fraction) in semiring R."""
    if R is Float:
        return x
    if R is Boolean:
        return Boolean(bool(x))
    if R is BM2:
        return x if isinstance(x, BM2) else BM2(x)
    if R is Log:
        import math
        return Log(math.log(x)) if x > 0 else Log(-math.inf)
    return R(x)
