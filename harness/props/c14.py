"""C14 - real-weighted equivalence test and minimisation are exact."""
import copy
from fractions import Fraction

import aops
import families as fam
from check import standard_run, generic_replay
from gops import guarded, CallTimeout, ustr
from common import MachineryError
from project import enc_rat, seq
from genlm.grammar.wfsa.field_wfsa import WFSA as FieldWFSA
from genlm.grammar.semiring import Float

MODULE = "TraceField"
SIG = ["a", "b", "c"]


def build(M):
    """A field WFSA with float weights (every model weight is a dyadic rational: exactly representable)."""
    m = FieldWFSA(Float)
    for k in range(M["n"]):
        m.add_state(k)
    for q, w in M["I"]:
        m.add_I(q, float(Fraction(*w)))
    for q, w in M["F"]:
        m.add_F(q, float(Fraction(*w)))
    for p, a, q, w in M["arcs"]:
        m.add_arc(p, a, q, float(Fraction(*w)))
    return m


def flat(w):
    out = []
    while w != ():
        a, w = w
        out.append(a)
    return out


def f_cex(a):
    A, B = build(a["A"]), build(a["B"])
    r = A.counterexample(B)
    e = {"op": "cex", "A": a["A"], "B": a["B"], "sigma": SIG}
    if r is None:
        e["none"] = True
    else:
        w, va, vb = r
        e.update(none=False, w=seq(flat(w)), va=enc_rat(va), vb=enc_rat(vb))
    return e


def f_eq(a):
    A, B = build(a["A"]), build(a["B"])
    eq = bool(A == B)
    return {"op": "eq", "A": a["A"], "B": a["B"], "sigma": SIG, "eq": eq, "hasheq": hash(A) == hash(B)}


def f_min(a):
    A = build(a["A"])
    m = A.min
    vals = [[list(s), enc_rat(m(s))] for s in fam.strings(SIG if a["A"]["n"] >= 5 else SIG[:2], a["L"] if a["A"]["n"] < 5 else 2)]
    return {"op": "min", "A": a["A"], "sigma": SIG, "dim": int(m.dim), "vals": vals}


FUNCS = {"cex": f_cex, "eq": f_eq, "min": f_min}


def event(fn, args, site=None, feat=None, timeout=10):
    call = {"fn": fn, "args": args}
    try:
        try:
            e = guarded(lambda: FUNCS[fn](args), timeout)
        except CallTimeout:
            # a slow machine must not look like a hanging library: one more attempt with four times the budget
            e = guarded(lambda: FUNCS[fn](args), 4 * timeout)
    except MachineryError:
        raise
    except CallTimeout:
        e = {"op": fn, "exc": "Timeout", "note": f"no answer within {timeout}s"}
    except Exception as ex:  # noqa: BLE001
        e = {"op": fn, "exc": type(ex).__name__, "note": str(ex)[:200]}
    e["call"] = call
    e["site"] = site or fn
    if feat:
        e["feat"] = feat
    return e


W = [[1, 2], [1, 4], [1, 1], [3, 4], [2, 1], [1, 2]]


def variant(rng, A, kind):
    B = copy.deepcopy(A)
    n = B["n"]
    if kind == "same":
        return B
    if kind == "perm":
        perm = list(range(n))
        rng.shuffle(perm)
        B["I"] = [[perm[q], w] for q, w in B["I"]]
        B["F"] = [[perm[q], w] for q, w in B["F"]]
        B["arcs"] = [[perm[p], a, perm[q], w] for p, a, q, w in B["arcs"]]
        return B
    if kind == "redundant":
        B["n"] = n + 1                       # an unreachable state with arcs back into the machine
        B["arcs"].append([n, "a", 0, [1, 2]])
        B["F"].append([n, [1, 1]])
        return B
    if kind == "deadsym":
        B["n"] = n + 2                       # a symbol used only on states that carry no weight to any string
        B["arcs"].append([n, "c", n + 1, [1, 2]])
        B["arcs"].append([0, "c", n, [1, 2]] if rng.random() < 0.5 else [n + 1, "c", n, [1, 4]])
        return B
    if kind == "extrasym":
        B["n"] = n + 1                       # not equivalent: B also accepts the one-symbol string "c"
        B["I"].append([n, [1, 2]])
        B["arcs"].append([n, "c", n, [1, 4]] if rng.random() < 0.3 else [n, "c", 0 if not B["F"] else B["F"][0][0], [1, 2]])
        if not any(q == n for q, _ in B["F"]) and B["arcs"][-1][2] == n:
            B["F"].append([n, [1, 2]])
        return B
    if kind == "split":
        # state 0's initial weight split over a duplicate of state 0 (same outgoing arcs, same final weight)
        B["n"] = n + 1
        newI = []
        for q, w in B["I"]:
            if q == 0:
                f = Fraction(*w) / 2
                newI += [[0, [f.numerator, f.denominator]], [n, [f.numerator, f.denominator]]]
            else:
                newI.append([q, w])
        B["I"] = newI
        B["arcs"] += [[n, a, q, w] for p, a, q, w in A["arcs"] if p == 0 and q != 0]
        B["arcs"] += [[n, a, n, w] for p, a, q, w in A["arcs"] if p == 0 and q == 0]
        B["arcs"] += [[p, a, n, w] for p, a, q, w in A["arcs"] if False]
        B["F"] += [[n, w] for q, w in A["F"] if q == 0]
        if any(p != 0 and q == 0 for p, a, q, w in A["arcs"]) or any(p == 0 and q == 0 for p, a, q, w in A["arcs"]):
            return None                      # incoming arcs to state 0: this simple split is not language preserving
        return B
    if kind == "tweak":
        cands = [r for r in B["arcs"]] + B["I"] + B["F"]
        r = rng.choice(cands)
        f = Fraction(*r[-1])
        g = f + Fraction(1, 4) if f != Fraction(3, 4) else Fraction(1, 2)
        r[-1] = [g.numerator, g.denominator]
        return B
    if kind == "empty":
        B["F"] = []
        return B
    if kind == "cancel":
        # equivalent: an extra component whose two paths for "a" carry opposite weights (real weights may be negative)
        w = rng.choice([[1, 2], [1, 4], [1, 1]])
        B["n"] = n + 3
        B["I"].append([n, [1, 1]])
        B["arcs"] += [[n, "a", n + 1, w], [n, "a", n + 2, w]]
        B["F"] += [[n + 1, [1, 2]], [n + 2, [-1, 2]]]
        return B
    raise ValueError(kind)


def generate(rng, tier, shard, nshards):
    n = 14 if tier == "quick" else 140
    for i in range(n):
        A = aops.rand_wfsa(rng, "Rat", nS=rng.choice([1, 2, 3]), narcs=rng.choice([2, 4, 5]),
                           labels=("a", "b", "") if i % 5 == 2 else ("a", "b"),
                           eps_acyclic=True, acyclic=(i % 3 == 0), eps_loop=0.5 if i % 5 == 2 else 0.0)
        # keep the machine well conditioned and convergent: every weight <= 1 on cyclic machines
        if i % 3 != 0:
            for r in A["arcs"]:
                r[-1] = rng.choice([[1, 2], [1, 4], [1, 4]])
        if i % 7 == 6:
            A["F"] = []                      # empty language
        if i % 4 == 1:                       # real weights of both signs
            for r in A["arcs"] + A["F"]:
                if rng.random() < 0.4:
                    r[-1] = [-r[-1][0], r[-1][1]]
        featA = aops.afeat(A) + ("+emptylang" if not A["F"] else "") + ("+signed" if i % 4 == 1 else "")
        yield event("min", {"A": A, "L": 3}, site="WFSA.min", feat=featA)
        for kind in ("same", "perm", "redundant", "deadsym", "extrasym", "split", "tweak", "empty", "cancel", "random"):
            if kind == "random":
                B = aops.rand_wfsa(rng, "Rat", nS=rng.choice([1, 2, 3]), narcs=3, labels=("a", "b"), eps_acyclic=True, acyclic=True)
            else:
                B = variant(rng, A, kind)
            if B is None or (kind == "deadsym" and i % 3 != 0):
                continue
            yield event("cex", {"A": A, "B": B}, site="counterexample", feat=kind)
            yield event("eq", {"A": A, "B": B}, site="__eq__/__hash__", feat=kind)
            if kind in ("extrasym", "tweak", "deadsym"):           # the relation must not depend on the argument order
                yield event("cex", {"A": B, "B": A}, site="counterexample", feat=kind + "/swapped")
                yield event("eq", {"A": B, "B": A}, site="__eq__/__hash__", feat=kind + "/swapped")
            if kind in ("split", "redundant", "deadsym", "cancel", "random"):
                yield event("min", {"A": B, "L": 3}, site="WFSA.min", feat="min-of-" + kind)
        if i % 8 != shard % 8:
            continue
        # a deterministic trie whose branches have the same future: forward-minimal but not minimal
        x, y, z = rng.sample(["a", "b", "c"], 3)
        w = rng.choice(W)
        trie = {"n": 5, "I": [[0, [1, 1]]], "F": [[3, w], [4, w]],
                "arcs": [[0, x, 1, [1, 2]], [0, z, 2, [1, 2]], [1, y, 3, [1, 2]], [2, y, 4, [1, 2]]]}
        yield event("min", {"A": trie, "L": 3}, site="WFSA.min", feat="min-of-trie")
        # two machines of n states each that agree on every word up to length n and differ on a^(n+1): the joint
        # forward space has dimension up to 2n, the search must not stop at n
        for n in (2, 3):
            wc = rng.choice([[1, 1], [1, 2]])
            cyc = {"n": n, "I": [[0, [1, 1]]], "F": [[0, [1, 1]]], "arcs": [[q, "a", (q + 1) % n, wc] for q in range(n)]}
            late = copy.deepcopy(cyc)
            late["arcs"].append([n - 1, "a", n - 1, [1, 2]])
            for X, Y, ft in ((cyc, late, "late-difference"), (late, cyc, "late-difference/swapped")):
                yield event("cex", {"A": X, "B": Y}, site="counterexample", feat=ft)
                yield event("eq", {"A": X, "B": Y}, site="__eq__/__hash__", feat=ft)
        lift = lambda w: {"n": 2, "I": [[0, [1, 1]]], "F": [[1, [1, 1]]], "arcs": [[0, "a", 1, w]]}
        yield event("eq", {"A": lift([1, 2]), "B": lift([3, 4])}, site="__eq__/__hash__", feat="lift-noninteger")
        yield event("cex", {"A": lift([1, 2]), "B": lift([3, 4])}, site="counterexample", feat="lift-noninteger")


def selftests(events, rng):
    out = []
    for e in [e for e in events if "exc" not in e and e["op"] == "min"][:6]:
        c = copy.deepcopy(e)
        c["expect"] = "reject"
        c["dim"] = c["dim"] + 1
        out.append(c)
    for e in [e for e in events if "exc" not in e and e["op"] == "cex" and e["none"]][:4]:
        c = copy.deepcopy(e)
        c["expect"] = "reject"
        c["none"] = False                    # claims a counterexample on which the automata do not differ
        c["w"] = []
        c["va"] = c["vb"] = [0, 1]
        out.append(c)
    for e in [e for e in events if "exc" not in e and e["op"] == "eq"][:4]:
        c = copy.deepcopy(e)
        c["expect"] = "reject"
        c["eq"] = not c["eq"]
        c["hasheq"] = True
        out.append(c)
    return out


def run(report, tier, seed):
    standard_run(report, "C14", MODULE, tier, seed, selftests, trivial=("plain",),
                 sample_keys=("op", "A", "B", "none", "w", "eq", "dim", "site"),
                 rule=("random 1-3 state automata with dyadic weights (well conditioned; cyclic ones contractive) and, for each, "
                       "an equal copy, a state permutation, a redundant unreachable state, a split state, a single "
                       "non-integer weight change, the empty language and a random machine: counterexample() is None iff TLC "
                       "finds the automata equivalent (all strings shorter than nA+nB, exact rationals), a returned string "
                       "really distinguishes with the reported weights, == / hash agree; min terminates (10 s), min.dim = "
                       "Hankel rank (Gaussian elimination in TLA+), min preserves weights"))
    report.assumptions.append("numpy's floating-point Gram-Schmidt / allclose decisions are outside the model; inputs are kept well "
                              "conditioned (dyadic weights, small machines) as the property itself requires")


def replay(report, rp):
    return generic_replay(report, rp, event)
