"""C05 - incremental parsing is history-independent; queries are pure."""
import copy
import json
import random

import families as fam
import gops
import usersemirings as us
from check import judge
from common import MachineryError, run_tlc, fresh
from project import cfg_proj, cfg_digest, seq
from tlaparse import parse_dot, shortest_paths

from genlm.grammar.cfglm import EOS, BoolCFGLM, locally_normalize, add_EOS
from genlm.grammar.parse.earley import Earley, EarleyLM
from genlm.grammar.parse import earley_rescaled as ER
from genlm.grammar.parse.cky import IncrementalCKY, CKYLM

MODULE = "TraceParserCache"
# A VIOLATION needs an observable witness: an answer that differs from a fresh object's ('same'), a cached
# chart that will answer a later query differently from a fresh object ('content'), a mutated grammar ('pure')
# or an exception.  'keys', 'shared' and 'frozen' compare the cache layout with ParserCache.tla; a divergence
# there means the model no longer describes the code and is reported in the evidence, not as a violation.
RELEVANT = {"same", "content", "pure", "raised"}

MC_CFG = """CONSTANTS Tok = {"a", "b"}
 MaxLen = %d
 Kind = "%s"
INIT Init
NEXT Next
INVARIANT PrefixClosed
PROPERTY OnlyClearForgets
CHECK_DEADLOCK FALSE
"""


# ---------------------------------------------------------------------------
# projection of live parser objects


def col_digest(kind, col, zero):
    if kind == "earley":
        return (col.k,
                tuple(sorted((repr(k), repr(v)) for k, v in col.i_chart.items())),
                tuple(sorted((repr(k), repr(v)) for k, v in col.c_chart.items())),
                tuple(sorted((repr(k), tuple(map(repr, v))) for k, v in col.waiting_for.items() if v)),
                repr(getattr(col, "rescale", None)))
    return tuple(sorted((i, tuple(sorted((repr(x), repr(w)) for x, w in ch.items() if w != zero)))
                        for i, ch in col.items() if any(w != zero for w in ch.values())))


class Obj:
    """A parser or LM object together with the role-specific way of querying it."""

    def __init__(self, name, kind, role, make, zero):
        self.name, self.kind, self.role, self.make, self.zero = name, kind, role, make, zero
        self.o = make()

    def parser(self):
        return self.o.model if self.role == "lm" else self.o

    def cache(self):
        return self.parser()._chart

    def keys(self):
        return sorted([seq(k) for k in self.cache().keys()])

    def apply(self, q, p):
        p = tuple(p)
        if q == "clear":
            self.o.clear_cache()
            return None
        if self.role == "parser":
            if q in ("chart", "pnext"):
                ch = self.o.chart(p)
                a = self.o.next_token_weights(ch) if self.kind == "earley" else self.o.next_token_weights(ch, p)
                return ans_digest(a, self.zero)
            if q == "call":
                return vrepr(self.o(p))
        else:
            if q in ("chart", "pnext", "lm_pnext"):
                return ans_digest(self.o.p_next(p), 0)
            if q == "lmcall":
                return vrepr(self.o(p + (EOS,)))
        raise MachineryError(f"unsupported query {q} for role {self.role}")


def vrepr(v):
    """A canonical print of an answer VALUE: exact numbers by value (0, Fraction(0, 1) and 0.0 are the same answer),
    floats (only produced where the code path forces them) to 9 digits, semiring elements by their score."""
    from fractions import Fraction
    if isinstance(v, bool):
        return repr(v)
    if isinstance(v, (int, Fraction)):
        return str(Fraction(v))
    if isinstance(v, float) or hasattr(v, "dtype"):
        f = float(v)
        return str(Fraction(f)) if f == int(f) and abs(f) < 1e9 else f"{f:.9g}"
    if hasattr(v, "score"):
        return type(v).__name__ + ":" + (vrepr(v.score) if not isinstance(v.score, tuple) else repr(tuple(vrepr(x) for x in v.score)))
    return repr(v)


def ans_digest(chart, zero):
    return repr(sorted((repr(k), vrepr(v)) for k, v in chart.items() if v != zero and v != 0))


def semantic_content(ob, q, cols):
    """What a cached chart for prefix q answers: next-token weights and the weight of q as a string.
    (Raw columns mention nonterminal names, which depend on a global fresh-name counter and on set
    iteration order and are not observable; answers are.)"""
    o = ob.parser()
    if ob.kind == "earley":
        ntw = o.next_token_weights(cols)
        val = cols[len(q)].c_chart.get((0, o.cfg.S), o.cfg.R.zero) if len(q) else None
        if val is not None and hasattr(o, "rescale"):
            val = val / o.rescale(cols, 0, len(q))
    else:
        ntw = o.next_token_weights(cols, q)
        val = cols[len(q)][0][o.S]
    return ans_digest(ntw, o.cfg.R.zero), (vrepr(val) if val is not None else None)


def factories(srn, g):
    R = g.R
    out = []
    if srn in ("Sat3", "Bool"):
        out.append(("Earley(raw)", "earley", "parser", lambda: Earley(g), R.zero))
        out.append(("IncrementalCKY(raw)", "cky", "parser", lambda: IncrementalCKY(g.cnf), R.zero))
        out.append(("Earley", "earley", "parser", lambda: Earley(g.prefix_grammar), R.zero))
        out.append(("IncrementalCKY", "cky", "parser", lambda: IncrementalCKY(g.cnf.prefix_grammar.cnf), R.zero))
    if srn == "Bool":
        out.append(("BoolCFGLM[earley]", "earley", "lm", lambda: BoolCFGLM(g, alg="earley"), 0))
        out.append(("BoolCFGLM[cky]", "cky", "lm", lambda: BoolCFGLM(g, alg="cky"), 0))
    if srn == "Rat":
        out.append(("rescaled.Earley(raw)", "earley", "parser", lambda: ER.Earley(g), 0))
        out.append(("Earley", "earley", "parser", lambda: Earley(g.prefix_grammar), 0))
        out.append(("rescaled.Earley", "earley", "parser", lambda: ER.Earley(g.prefix_grammar), 0))
        out.append(("EarleyLM", "earley", "lm", lambda: EarleyLM(g), 0))
        out.append(("rescaled.EarleyLM", "earley", "lm", lambda: ER.EarleyLM(g), 0))
        out.append(("CKYLM", "cky", "lm", lambda: CKYLM(g), 0))
    return out


def step_event(ob, q, p, hid, G, srn):
    """Apply one query to the live object and record every C05 observation of that step."""
    kind = ob.kind
    before_keys = ob.keys()
    live = [(k, i, c) for k, cols in ob.cache().items() for i, c in enumerate(cols)]
    before_dig = {id(c): col_digest(kind, c, ob.zero) for _, _, c in live}
    e = {"op": "query", "kind": kind, "role": ob.role, "obj": ob.name, "q": q, "p": seq(p), "before": before_keys,
         "hid": hid}
    try:
        ans = gops.guarded(lambda: ob.apply(q, p), 30)
    except MachineryError:
        raise
    except Exception as ex:  # noqa: BLE001
        e["exc"] = type(ex).__name__
        e["after"] = ob.keys()
        return e
    e["after"] = ob.keys()
    cache = ob.cache()
    freshob = Obj(ob.name, ob.kind, ob.role, ob.make, ob.zero)
    fp = freshob.parser()
    shared = content = True
    for k, cols in list(cache.items()):
        shared &= len(cols) == len(k) + 1
        for i, c in enumerate(cols):
            sub = cache.get(k[:i])
            shared &= sub is not None and len(sub) > i and c is sub[i]
        try:
            content &= semantic_content(ob, k, cols) == semantic_content(freshob, k, fp.chart(k))
        except AttributeError:
            content = None           # the parser's internals were refactored: this observation is unavailable
            break
        except MachineryError:
            raise
        except Exception:  # noqa: BLE001
            # the library fails on its OWN cached chart for k (e.g. a cached column list that was cut short by a later
            # query): the answer that cache entry will give to a later query is not the fresh one
            content = False
    e["shared"] = bool(shared)
    if content is not None:
        e["content"] = bool(content)
    e["frozen"] = all(col_digest(kind, c, ob.zero) == before_dig[id(c)] for _, _, c in live)
    if ans is not None:
        # a pristine object that has answered nothing else (the one above has just been asked for every cached prefix)
        e["same"] = ans == Obj(ob.name, ob.kind, ob.role, ob.make, ob.zero).apply(q, p)
        e["ans"] = ans[:200]
    return e


# ---------------------------------------------------------------------------
# (A) + (C): the state graph of ParserCache.tla, every edge stepped through real objects


def graph(report, kind, maxlen):
    d = fresh("pcdot")
    dot = d / "g.dot"
    res = run_tlc("ParserCache", MC_CFG % (maxlen, kind), workers=4,
                  extra=["-dump", "dot,actionlabels", str(dot)])
    if not res.ok:
        raise MachineryError("ParserCache model checking failed:\n" + res.errhead)
    report.add_tlc(res, f"ParserCache.tla kind={kind} MaxLen={maxlen}: PrefixClosed, OnlyClearForgets; graph dumped")
    nodes, edges = parse_dot(dot.read_text(), ["cache"])
    dot.unlink()
    init = [n for n in nodes if nodes[n]["cache"] == frozenset()][0]
    return nodes, edges, init


ACT2Q = {"Chart": "chart", "Call": "call", "LmCall": "lmcall", "Clear": "clear"}


def walk(report, rng, tier):
    events = []
    maxlen = 2
    grammars = []
    for gi in range(3 if tier == "quick" else 10):
        for srn, shape in (("Sat3", "any"), ("Bool", "any"), ("Rat", "acyclic")):
            R = gops.SR[srn]
            g = fam.rand_cfg(rng, R, shape=shape, nN=3, nrules=4)
            if shape == "any":
                g = fam.ensure_language(g, rng)
            else:
                g.add(fam.weights_for(R)[0], g.S, "a", "b")
                g.add(fam.weights_for(R)[1], g.S, "b")
            grammars.append((srn, g))
    # grammars in which some tokens are dead at every context (queries on non-viable extensions happen in the walk)
    for srn in ("Sat3", "Bool", "Rat"):
        R = gops.SR[srn]
        w = fam.weights_for(R)[0]
        grammars.append((srn, fam.build_cfg(R, [(w, "S", ("a", "S", "b")), (w, "S", ("a", "b"))])))
    nedges = 0
    for kind in ("earley", "cky"):
        nodes, edges, init = graph(report, kind, maxlen)
        for srn, g in grammars:
            G, _ = cfg_proj(g)
            for name, k2, role, make, zero in factories(srn, g):
                if k2 != kind:
                    continue
                allowed = {"Chart", "Call", "Clear"} if role == "parser" else {"Chart", "LmCall", "Clear"}
                paths = shortest_paths(init, edges, allowed)
                targets = {}
                for a, b, act, arg in edges:
                    targets.setdefault((a, act, arg), set()).add(nodes[b]["cache"])
                for (a, act, arg), tgt in targets.items():
                    if act not in allowed or a not in paths:
                        continue
                    ob = Obj(name, kind, role, make, zero)
                    for act2, arg2 in paths[a]:
                        ob.apply(ACT2Q[act2], arg2 or ())
                    e = step_event(ob, ACT2Q[act], arg or (), f"walk/{name}", G, srn)
                    have = frozenset(tuple(x) for x in e["after"])
                    e["site"] = f"{name}.{ACT2Q[act]}"
                    e["feat"] = "graph-edge"
                    e["call"] = {"fn": "walk", "args": {"sr": srn, "G": G, "obj": name,
                                                         "path": [[ACT2Q[x], list(y or ())] for x, y in paths[a]],
                                                         "q": ACT2Q[act], "p": list(arg or ())}}
                    if "exc" not in e and have not in tgt:
                        e["keys_match_model_target"] = False
                        e["shared"] = False     # reported through an existing clause; the keys clause fires too
                    events.append(e)
                    nedges += 1
    report.extra["graph_edges_walked_on_real_objects"] = nedges
    return events


# ---------------------------------------------------------------------------
# (B): random long histories


def histories(rng, tier):
    events = []
    n_hist = 40 if tier == "quick" else 300
    for hi in range(n_hist):
        srn, shape = [("Sat3", "any"), ("Rat", "acyclic"), ("Bool", "any"), ("Sat3", "leftcycle"), ("Bool", "leftcycle")][hi % 5]
        R = gops.SR[srn]
        g = fam.rand_cfg(rng, R, shape=shape, nN=4 if shape == "leftcycle" else 3, nrules=5 if shape != "leftcycle" else 2)
        if shape in ("any", "leftcycle"):
            g = fam.ensure_language(g, rng)
        else:
            g.add(fam.weights_for(R)[0], g.S, "a", "b", "a")
            g.add(fam.weights_for(R)[1], g.S, "b")
        G, _ = cfg_proj(g)
        facs = factories(srn, g)
        name, kind, role, make, zero = facs[hi % len(facs)]
        ob = Obj(name, kind, role, make, zero)
        V = sorted(g.V)
        maxlen = 5 if tier == "quick" else 8
        known = [()]
        hist = []
        for step in range(14 if tier == "quick" else 30):
            r = rng.random()
            if r < 0.08:
                q, p = "clear", ()
            else:
                base = rng.choice(known)
                if rng.random() < 0.5 and len(base) < maxlen:       # extend a known prefix (siblings alternate)
                    p = base + (rng.choice(V),)
                elif rng.random() < 0.5:
                    p = base[: rng.randint(0, len(base))]            # re-query something shorter
                else:
                    p = tuple(rng.choice(V) for _ in range(rng.randint(0, maxlen)))
                known.append(p)
                q = rng.choice(["chart", "call"] if role == "parser" else ["pnext", "lmcall"])
            e = step_event(ob, q, p, f"hist{hi}", G, srn)
            hist.append([q, list(p)])
            e["site"] = f"{name}.{q}"
            e["feat"] = "history"
            e["call"] = {"fn": "history", "args": {"sr": srn, "G": G, "obj": name, "history": list(hist)}}
            events.append(e)
    return events


def positive_histories(rng, tier):
    """Two-query histories of strings IN the language on raw parser objects, over grammars with left-corner cycles
    that are entered behind a first token: whatever the first query leaves behind on the object (caches, grammar-level
    memos) must not change the second answer.  Fresh answers are computed once per grammar."""
    import itertools
    events = []
    for gi in range(90 if tier == "quick" else 600):
        srn = ["Sat3", "Bool"][gi % 2]
        R = gops.SR[srn]
        g = fam.rand_cfg(rng, R, shape="leftcycle", nN=4, nrules=rng.choice([1, 2]))
        G, _ = cfg_proj(g)
        facs = [f for f in factories(srn, g) if f[0].endswith("(raw)")]
        V = sorted(g.V)
        strs = [s for n in range(1, 5) for s in itertools.product(V, repeat=n)]
        name, kind, role, make, zero = facs[gi % len(facs)]
        try:
            probe = make()
            fresh = {s: vrepr(make()(s)) for s in strs}
            good = [s for s in strs if probe(s) != zero]
        except Exception:  # noqa: BLE001
            continue
        if len(good) < 2:
            continue
        rng.shuffle(good)
        for s1 in good[:6]:
            ob = Obj(name, kind, role, make, zero)
            try:
                ob.o(s1)
            except Exception:  # noqa: BLE001
                continue
            for s2 in good:
                before = ob.keys()
                e = {"op": "query", "kind": kind, "role": role, "obj": name, "q": "call", "p": seq(s2), "before": before,
                     "hid": f"pos{gi}", "site": f"{name}.call", "feat": "history-in-language",
                     "call": {"fn": "history", "args": {"sr": srn, "G": G, "obj": name,
                                                        "history": [["call", list(s1)], ["call", list(s2)]]}}}
                try:
                    e["same"] = vrepr(ob.o(s2)) == fresh[s2]
                except Exception as ex:  # noqa: BLE001
                    e["exc"] = type(ex).__name__
                e["after"] = ob.keys()
                events.append(e)
                # every pair is replayed from a clean history: rebuild the object with only s1 behind it
                ob = Obj(name, kind, role, make, zero)
                ob.o(s1)
    return events


def long_histories(rng, tier):
    """A cold query on a context of a few hundred tokens, then queries on its prefixes and siblings, on one LM object;
    every answer is compared with a pristine object's (float weights; values compared to 9 digits)."""
    from props.c04 import rl_grammar, viable_context
    from fractions import Fraction
    from genlm.grammar.cfg import CFG
    events = []
    for gi in range(3 if tier == "quick" else 12):
        G = rl_grammar(rng)

        def mk():
            g = CFG(R=us.Float, S=G["S"], V={"a", "b"})
            for r in G["rules"]:
                g.add(float(Fraction(*r["w"])), r["h"], *r["b"])
            return g
        for name, make, n in (("EarleyLM", lambda: EarleyLM(mk()), 300), ("rescaled.EarleyLM", lambda: ER.EarleyLM(mk()), 300),
                              ("CKYLM", lambda: CKYLM(mk()), 40)):
            ctx = tuple(viable_context(rng, G, n))
            if len(ctx) < 20:
                continue
            ob = Obj(name, "earley" if "Earley" in name else "cky", "lm", make, 0)
            import sys
            old = sys.getrecursionlimit()
            sys.setrecursionlimit(max(old, 5000))        # a cold query recurses once per token (not what is judged here)
            try:
                hist = []
                for p in (ctx, ctx[: len(ctx) // 3], ctx[:-1], ctx[:5], ctx[: len(ctx) // 2] + ("a",), ctx):
                    before = ob.keys() if len(ob.cache()) < 50 else []
                    e = {"op": "query", "kind": ob.kind, "role": "lm", "obj": name, "q": "lm_pnext", "p": [], "before": [],
                         "after": [], "hid": f"long{gi}", "site": f"{name}.p_next[long]", "feat": "long-context-history",
                         "n": len(p)}
                    hist.append(len(p))
                    try:
                        ans = ob.apply("pnext", p)
                        e["same"] = ans == Obj(name, ob.kind, "lm", make, 0).apply("pnext", p)
                    except Exception as ex:  # noqa: BLE001
                        e["exc"] = type(ex).__name__
                    e["call"] = {"fn": "long", "args": {"G": G, "obj": name, "lengths": list(hist)}}
                    e["q"] = "transform"      # no cache-key clause for these (hundreds of keys); only `same`
                    events.append(e)
            finally:
                sys.setrecursionlimit(old)
    return events


def _other(g):
    rest = sorted((x for x in g.N if x != g.S), key=repr)
    return rest[0] if rest else g.S


def grammar_histories(rng, tier):
    """Queries on a GRAMMAR object (total weights with various tolerances / iteration caps, string weights, prefix
    weights, transformations) after other queries on the same object; every answer is compared with a pristine copy."""
    events = []
    queries = {
        "treesum": lambda g: vrepr(g.treesum()),
        "agenda": lambda g: repr(sorted((repr(k), vrepr(v)) for k, v in g.agenda().items() if v != g.R.zero)),
        "naive": lambda g: repr(sorted((repr(k), vrepr(v)) for k, v in g.naive_bottom_up().items() if v != g.R.zero)),
        "call": lambda g: repr([vrepr(g(s)) for s in fam.strings(g.V, 2)]),
        "prefix_weight": lambda g: repr([vrepr(g.prefix_weight(s)) for s in fam.strings(g.V, 1)]),
        "cnf_size": lambda g: repr(len(g.cnf.rules)),
        "trim_size": lambda g: repr(len(g.trim().rules)),
        "null_weight": lambda g: repr(sorted((repr(k), vrepr(v)) for k, v in g.null_weight().items() if v != g.R.zero)),
        # the sub-language of another nonterminal, taken from a grammar object that was used before
        "sub_call": lambda g: repr([vrepr(g[_other(g)](s)) for s in fam.strings(g.V, 2)]),
        "sub_prefix": lambda g: repr([vrepr(g[_other(g)].prefix_weight(s)) for s in fam.strings(g.V, 1)]),
        "sub_trim_then_trim": lambda g: repr((len(g[_other(g)].trim().rules), len(g.trim().rules), vrepr(g.trim()(())))),
    }
    from fractions import Fraction
    for gi in range(24 if tier == "quick" else 200):
        srn, shape = [("Sat3", "any"), ("Rat", "acyclic"), ("Bool", "any"), ("Rat", "pcfg")][gi % 4]
        R = gops.SR[srn]
        if shape == "pcfg":
            # a recursive sub-stochastic grammar (per-head weights sum to 9/10): total weights are limits, so the
            # tolerance and iteration cap of EARLIER calls must not leak into later ones
            # clearly sub-critical (mean offspring well below one), so the iteration converges in a few dozen rounds
            x, y = rng.choice([(3, 6), (2, 7), (1, 4), (3, 5)])
            g0 = fam.build_cfg(R, [(Fraction(x, 10), "S", ("S", "S")), (Fraction(y, 10), "S", ("a",)),
                                   (Fraction(1, 2), "A", ("b",)), (Fraction(2, 5), "A", ("S", "b"))]
                               + ([(Fraction(1, 20), "S", ("A",))] if rng.random() < 0.5 else []))
        else:
            g0 = fam.rand_cfg(rng, R, shape=shape, nN=3, nrules=5)
        G, _ = cfg_proj(g0)
        for hi in range(3):
            pre = [rng.choice(gops.CFG_PRE) for _ in range(rng.randint(1, 3))]
            qn = rng.choice(list(queries))
            if shape == "pcfg":
                pre = [rng.choice(["treesum_tol", "agenda_tol", "treesum_maxiter", "agenda_maxiter", "treesum", "trim"])
                       for _ in range(rng.randint(1, 2))]
                qn = rng.choice(["treesum", "agenda", "null_weight", "cnf_size"])
            e = {"op": "query", "kind": "grammar", "role": "grammar", "obj": "CFG", "q": "transform", "p": [], "before": [],
                 "after": [], "hid": f"g{gi}", "site": f"CFG.{qn}[after {'+'.join(pre)}]"[:80], "feat": "grammar-history",
                 "call": {"fn": "ghist", "args": {"sr": srn, "G": G, "pre": pre, "query": qn}}}
            def mk(pre_):
                if shape != "pcfg":
                    return gops.build(G, srn, "str", pre_)
                g = gops.build(G, srn, "str")
                gf = g.spawn()                       # float weights: limits are approximated, as in ordinary use
                for r in g.rules:
                    gf.add(float(r.w), r.head, *r.body)
                return gops.warm_cfg(gf, pre_)
            try:
                used = gops.guarded(lambda: queries[qn](mk(pre)), 60)
                pristine = gops.guarded(lambda: queries[qn](mk(None)), 60)
                e["same"] = used == pristine
            except Exception as ex:  # noqa: BLE001
                e["exc"] = type(ex).__name__
            events.append(e)
    return events


# ---------------------------------------------------------------------------
# purity of queries and transformations


def purity(rng, tier):
    events = []
    from genlm.grammar.fst import FST
    ops = {
        "cnf": lambda g: g.cnf,
        "prefix_grammar": lambda g: g.prefix_grammar,
        "trim": lambda g: g.trim(),
        "cotrim": lambda g: g.cotrim(),
        "nullaryremove": lambda g: g.nullaryremove(),
        "unaryremove": lambda g: g.unaryremove(),
        "unarycycleremove": lambda g: g.unarycycleremove(),
        "binarize": lambda g: g.binarize(),
        "separate_start": lambda g: g.separate_start(),
        "separate_terminals": lambda g: g.separate_terminals(),
        "renumber": lambda g: g.renumber(),
        "agenda": lambda g: g.agenda(),
        "naive_bottom_up": lambda g: g.naive_bottom_up(),
        "call": lambda g: [g(s) for s in fam.strings(g.V, 2)],
        "derivative": lambda g: g.derivative(sorted(g.V)[0]),
        "derivatives": lambda g: g.derivatives(tuple(sorted(g.V))[:2]),
        "compose_string": lambda g: g @ tuple(sorted(g.V))[:2],
        "compose_fst": lambda g: g @ FST.from_string(tuple(sorted(g.V))[:1], g.R),
        "truncate_length": lambda g: g.truncate_length(2),
        "materialize": lambda g: g.materialize(2),
        "add_EOS": lambda g: add_EOS(g),
        "Earley": lambda g: [Earley(g)(s) for s in fam.strings(g.V, 2)],
        "IncrementalCKY": lambda g: [IncrementalCKY(g.cnf)(s) for s in fam.strings(g.V, 2)],
        "to_bytes": lambda g: g.to_bytes(),
        "getitem": lambda g: g[g.S],
        "spawn_then_add_to_V": lambda g: g.spawn().V.add("zz"),
        "trim_then_add": lambda g: g.trim().add(g.R.one, "FRESH", sorted(g.V)[0]),
    }
    for gi in range(6 if tier == "quick" else 40):
        srn, shape = [("Sat3", "any"), ("Bool", "any"), ("Rat", "acyclic")][gi % 3]
        R = gops.SR[srn]
        g0 = fam.ensure_language(fam.rand_cfg(rng, R, shape=shape, nN=3, nrules=5), rng)
        G, _ = cfg_proj(g0)
        for name, f in ops.items():
            g = gops.build(G, srn)
            d0 = cfg_digest(g)
            e = {"op": "query", "kind": "grammar", "q": "transform", "p": [], "before": [], "after": [], "tfm": name,
                 "site": f"purity/{name}", "feat": "purity",
                 "call": {"fn": "purity", "args": {"sr": srn, "G": G, "tfm": name}}}
            try:
                gops.guarded(lambda: f(g), 30)
                first = cfg_digest(g)
                gops.guarded(lambda: f(g), 30)      # a second application (cached results) must not differ either
                e["pure"] = d0 == first == cfg_digest(g)
            except Exception as ex:  # noqa: BLE001
                if name == "trim_then_add" or srn == "Sat3" and name in ("to_bytes",):
                    e["pure"] = d0 == cfg_digest(g)
                else:
                    e["exc"] = type(ex).__name__
            events.append(e)
    return events


def selftests(events, rng):
    out = []
    cands = [e for e in events if "exc" not in e and e["q"] in ("chart", "pnext", "call") and e["p"]]
    rng.shuffle(cands)
    for e in cands[:6]:
        c = copy.deepcopy(e)
        c["expect"] = "reject"
        c["after"] = [k for k in c["after"] if k != c["p"]]       # the queried prefix is missing from the cache
        out.append(c)
    for e in cands[6:10]:
        c = copy.deepcopy(e)
        c["expect"] = "reject"
        c["frozen"] = False
        out.append(c)
    for e in [e for e in events if e["q"] == "transform" and "exc" not in e][:3]:
        c = copy.deepcopy(e)
        c["expect"] = "reject"
        c["pure"] = False
        out.append(c)
    return out


def run(report, tier, seed):
    rng = random.Random(seed + 5)
    events = (walk(report, rng, tier) + histories(rng, tier) + positive_histories(rng, tier) + long_histories(rng, tier)
              + grammar_histories(rng, tier) + purity(rng, tier))
    for e in events:
        report.case(e, trivial=())
    judge(report, MODULE, events, relevant=RELEVANT)
    st = selftests([e for e in events if e.get("_verdict") == "accepted"], random.Random(seed))
    if not st:
        raise MachineryError("no rejection self-test could be built")
    judge(report, MODULE, st, relevant=RELEVANT)
    seen = set()
    for e in events:
        if e["feat"] not in seen:
            seen.add(e["feat"])
            report.sample({k: e[k] for k in ("obj", "q", "p", "before", "after", "shared", "content", "frozen", "same", "pure", "tfm") if k in e})
    report.rule = ("(C) every edge of the ParserCache.tla state graph (all histories over prefixes <= 2 of {a,b}, both parser "
                   "kinds) stepped through real Earley, rescaled Earley, IncrementalCKY, EarleyLM, rescaled EarleyLM, CKYLM "
                   "and BoolCFGLM objects; (B) random histories with sibling prefixes, re-queries, clear_cache; purity of "
                   "every query/transformation on the grammar object; every step is a distinct non-trivial case")


def rebuild_and_step(args):
    g = gops.build(args["G"], args["sr"])
    fac = {f[0]: f for f in factories(args["sr"], g)}[args["obj"]]
    ob = Obj(*fac)
    if "history" in args:
        for q, p in args["history"][:-1]:
            ob.apply(q, tuple(p))
        q, p = args["history"][-1]
    else:
        for q, p in args["path"]:
            ob.apply(q, tuple(p))
        q, p = args["q"], args["p"]
    return step_event(ob, q, tuple(p), "replay", args["G"], args["sr"])


def replay(report, rp):
    e = rp["replay"]["event"]
    fn, args = e["call"]["fn"], e["call"]["args"]
    if fn == "purity":
        new = [x for x in purity(random.Random(0), "quick") if False]
        raise MachineryError("purity events replay by re-running the check")
    new = rebuild_and_step(args)
    new["site"] = e.get("site")
    new["call"] = e["call"]
    print("replayed observation:", json.dumps({k: new[k] for k in new if k in ("after", "shared", "content", "frozen", "same", "exc")})[:500])
    judge(report, MODULE, [new], relevant=RELEVANT)
    return report.finish()
