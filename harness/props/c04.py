"""C04 - grammar language models are the exact left-to-right factorisation."""
import copy

import families as fam
import gops
from check import standard_run, generic_replay, selftest_numeric
from project import cfg_proj

MODULE = "TraceGrammar"


def pcfg(rng, R, normalise):
    """A grammar with finitely many derivations and positive total weight (exact rational Z)."""
    g = fam.rand_cfg(rng, R, shape="acyclic", nN=rng.choice([2, 3, 4]), nrules=rng.choice([4, 6, 8]))
    ws = fam.weights_for(R)
    g.add(rng.choice(ws), g.S, "a", "b")
    g.add(rng.choice(ws), g.S, "b")
    if rng.random() < 0.5:
        g.add(rng.choice(ws), g.S)                    # the empty string is in the language
    if normalise:
        from genlm.grammar.cfglm import locally_normalize
        g = locally_normalize(g)
    return g


def generate(rng, tier, shard, nshards):
    event = gops.variant_event(rng)
    n = 10 if tier == "quick" else 100
    L = 3 if tier == "quick" else 4
    for gi in range(n):
        srn = "Rat"
        R = gops.SR[srn]
        g = pcfg(rng, R, normalise=(gi % 2 == 0))
        feat = fam.feature_key(g) + ("+normalised" if gi % 2 == 0 else "")
        names = rng.choice(["str", "int", "tuple"])
        G, _ = cfg_proj(g)
        base = {"sr": srn, "G": G, "names": names}
        if gi % 4 == 3:        # the grammar object was wrapped with another end-of-sequence symbol before
            base["pre"] = ["add_eos_custom"]
            feat = feat + "+wrapped-with-another-eos-before"
        ctxs = [[str(x) for x in c] for c in fam.strings(g.V, L)]
        for backend in ("earley", "rescaled", "cky"):
            for ctx in ctxs:
                if len(ctx) == L and rng.random() < 0.5:
                    continue
                warm = [rng.choice(ctxs) for _ in range(rng.choice([0, 0, 2]))]
                if ctx and rng.random() < 0.5:
                    # the parent context, then a sibling, then this context - on one LM object
                    sib = [t for t in sorted(g.V) if t != ctx[-1]]
                    warm = [ctx[:-1]] + [ctx[:-1] + [t] for t in sib] + warm
                yield event("pnext", dict(base, ctx=ctx, backend=backend, warm=warm), site=f"{backend}LM.p_next", feat=feat)
            for _ in range(4):
                c2, ext = rng.choice(ctxs[:7]), rng.choice(ctxs[1:7])
                yield event("pnextseq", dict(base, ctx=c2, ext=ext, backend=backend), site=f"{backend}LM.p_next_seq", feat=feat)
            for s in ctxs[: 8 if tier == "quick" else 31]:
                yield event("lmcall", dict(base, s=s, backend=backend), site=f"{backend}LM.__call__", feat=feat)
            for _ in range(3 if tier == "quick" else 8):
                # the generation loop itself: LM.sample with a scripted draw (random walk in the support the code offers)
                script = [rng.randrange(6) for _ in range(rng.randint(0, 5))]
                bound = rng.choice([None, None, 0, 1, 2])
                yield event("sample", dict(base, script=script, bound=bound, backend=backend), site=f"{backend}LM.sample",
                                 feat=feat + ("+max_tokens" if bound is not None else ""))
        for ctx in ctxs[:7]:
            nb = {k: v for k, v in base.items() if k != "pre"}
            yield event("ntw", dict(nb, ctx=ctx, backend="earley"), site="Earley.next_token_weights", feat=feat)
            yield event("ntw", dict(nb, ctx=ctx, backend="cky"), site="IncrementalCKY.p_next", feat=feat)
            yield event("ntw_vs_parser", dict(nb, ctx=ctx), site="ntw=parser(ctx+t)", feat=feat)
        yield event("pnext", dict(base, ctx=[gops.EOS_NAME], backend="earley"), site="earleyLM.p_next", feat=feat)
    # the same unnormalised identity over a finite semiring with arbitrary recursion
    for gi in range(n // 2):
        srn = "Sat3"
        g = fam.ensure_language(fam.rand_cfg(rng, gops.SR[srn], shape="any", nN=3, nrules=5), rng)
        G, _ = cfg_proj(g)
        feat = fam.feature_key(g)
        for ctx in [[str(x) for x in c] for c in fam.strings(g.V, 2)]:
            for be in ("earley", "cky"):
                yield event("ntw", {"sr": srn, "G": G, "ctx": ctx, "backend": be}, site=f"ntw[{be}]/Sat3", feat=feat)


def rl_grammar(rng, rare=False):
    """A deterministic right-linear proper grammar over {a, b}: 2-3 states, every state can stop.  rare: token a has
    probability 1/1024 in every state (contexts of a few hundred tokens have probabilities far below 1e-600)."""
    n = rng.choice([1, 2, 3])
    names = [f"#{k}" for k in range(n)]
    rules = []
    for X in names:
        toks = [t for t in ("a", "b") if rng.random() < 0.8] or ["a"]
        parts = rng.choice({1: [[[1, 2], [1, 2]], [[3, 4], [1, 4]], [[1, 4], [3, 4]]],
                            2: [[[1, 2], [1, 4], [1, 4]], [[1, 4], [1, 2], [1, 4]], [[3, 8], [3, 8], [1, 4]]]}[len(toks)])
        if rare:
            toks = ["a", "b"]
            parts = rng.choice([[[1, 1024], [511, 1024], [1, 2]], [[1, 1024], [1, 1024], [511, 512]]])
        for t, w in zip(toks, parts):
            rules.append({"w": w, "h": X, "b": [t, rng.choice(names)]})
        rules.append({"w": parts[-1], "h": X, "b": []})
    return {"S": "#0", "V": ["a", "b"], "rules": rules}


def viable_context(rng, G, n, prefer=None):
    st, ctx = G["S"], []
    for _ in range(n):
        opts = [r for r in G["rules"] if r["h"] == st and r["b"]]
        if not opts:
            break
        r = rng.choice(opts)
        if prefer is not None and rng.random() < 0.8:
            r = ([x for x in opts if x["b"][0] == prefer] or [r])[0]
        ctx.append(r["b"][0])
        st = r["b"][1]
    return ctx


def long_context_events(rng, tier):
    """Contexts of hundreds of tokens (and, for the rescaled parser, contexts whose probability is far below the
    smallest double): judged by the closed form for deterministic right-linear proper grammars."""
    out = []
    for gi in range(6 if tier == "quick" else 40):
        G = rl_grammar(rng)
        for backend, n in (("earley", 150), ("rescaled", 300), ("rescaled", 1500 if gi % 2 == 0 else 900), ("cky", 40)):
            ctx = viable_context(rng, G, n)
            # contexts beyond a few hundred tokens are reached as generation reaches them, 50 tokens at a time (a cold
            # query recurses once per token and would hit Python's recursion limit: out of scope of the property)
            out.append(gops.event("pnextrl", {"G": G, "ctx": ctx, "backend": backend,
                                              "stepwise": 50 if n >= 300 else rng.choice([0, 0, 50])},
                                  site=f"{backend}LM.p_next[long context]", feat=f"long-context-{n}", timeout=300))
    for gi in range(3 if tier == "quick" else 12):
        # contexts that keep taking a token of probability 1/1024: about 1e-720 after 300 tokens - only the rescaled
        # parser is built for these
        G = rl_grammar(rng, rare=True)
        for n in (150, 300):
            ctx = viable_context(rng, G, n, prefer="a")
            out.append(gops.event("pnextrl", {"G": G, "ctx": ctx, "backend": "rescaled", "stepwise": 50},
                                  site="rescaledLM.p_next[long improbable context]", feat=f"improbable-context-{n}", timeout=300))
    return out


def selftests(events, rng):
    out = selftest_numeric(events, rng, ops=("lmcall", "pnextseq", "sample"), n=12)
    cands = [e for e in events if "exc" not in e and e["op"] in ("pnext", "ntw", "pnextrl") and any(v != [0, 1] and v != 0 for _, v in e["dist"])]
    rng.shuffle(cands)
    for e in cands[:10]:
        c = copy.deepcopy(e)
        c["expect"] = "reject"
        for d in c["dist"]:
            if d[1] != [0, 1] and d[1] != 0:
                from check import corrupt_value
                d[1] = corrupt_value(d[1]) if isinstance(d[1], list) else (d[1] % 3) + 1 if d[1] < 3 else 1
                break
        out.append(c)
    return out


CKY_CFG = """CONSTANTS MAXRULES = %d
 MAXLEN = 3
 WEIGHTS = {%s}
 SRNAME = "Sat3"
INIT Init
NEXT Next
INVARIANT ColumnsAreInside
INVARIANT NextTokenIsExtension
CHECK_DEADLOCK FALSE
"""


GEN_CFG = """SPECIFICATION Spec
CONSTANTS NTS = {"S", "A"}
 TS = {"a", "b"}
 MAXBODY = 2
 MAXRULES = 2
 WEIGHTS <- %s
 BOUNDS <- %s
INVARIANT Factorisation
INVARIANT StaysViable
INVARIANT CondSumsToOne
INVARIANT LengthBound
INVARIANT Emit
PROPERTY Terminates
CHECK_DEADLOCK FALSE
"""


def generation_model(report, tier):
    """(A) Generation.tla: the sampling loop as a state machine over a TLC-enumerated family of exact-rational grammars
    with finite language; (C) every complete behaviour TLC finds is replayed into the real LM objects with a scripted
    draw, and the observed run is judged by the trace specification."""
    import json
    import re
    from common import run_tlc, MachineryError
    ws, bs = ("RatWeights2", "BoundSetQ") if tier == "quick" else ("RatWeights3", "BoundSet")
    res = run_tlc("Generation", GEN_CFG % (ws, bs), timeout=3000, tag="generation")
    if not res.ok or res.left != 0:
        raise MachineryError("Generation.tla: design-level check failed (the model, not the code):\n" + res.errhead)
    todo = []          # applied to the report by the main thread (this function runs in a background thread)
    todo.append(lambda: report.add_tlc(res, f"Generation.tla: all grammars with <= 2 rules over 2 nonterminals / 2 terminals, weights {ws}, "
                        f"max_tokens in {bs}: Factorisation, StaysViable, CondSumsToOne, LengthBound, Terminates"))
    behs = []
    for m in re.finditer(r'<<"BEH", "((?:[^"\\]|\\.)*)">>', res.out):
        behs.append(json.loads(json.loads('"' + m.group(1) + '"')))
    if len(behs) < 100:
        raise MachineryError(f"Generation.tla printed only {len(behs)} behaviours")
    todo.append(lambda: report.extra.__setitem__("tlc_behaviours_replayed_into_LM.sample", len(behs)))
    out = []
    backends = ("earley", "rescaled", "cky")
    for i, b in enumerate(behs):
        nm = {"S": "#0", "A": "#1"}          # the harness spells nonterminals #k
        G = {"S": nm[b["G"]["S"]], "V": b["G"]["V"],
             "rules": [{"w": r["w"], "h": nm[r["h"]], "b": [nm.get(y, y) for y in r["b"]]} for r in b["G"]["rules"]]}
        forced = b["bound"] != -1 and len(b["ys"]) > b["bound"]
        script = list(b["ys"]) + ([] if forced else [gops.EOS_NAME])
        for be in (backends if tier != "quick" else (backends[i % 3],)):
            out.append(gops.event("sample", {"sr": "Rat", "G": G, "script": script, "backend": be,
                                             "bound": None if b["bound"] == -1 else b["bound"]},
                                  site=f"{be}LM.sample[TLC behaviour]", feat="tlc-behaviour" + ("+forced-stop" if forced else "")))
    return out, todo


def model_check(report, tier):
    """(A) CKY.tla: incremental columns = inside weights; the outside pass = weight of the one-token extension."""
    from common import run_tlc, MachineryError, semantic_core
    for maxrules, ws in ([(2, "1, 2")] if tier == "quick" else [(2, "1, 2"), (3, "1")]):
        res = run_tlc("CKY", CKY_CFG % (maxrules, ws), timeout=3000)
        if not res.ok or res.left != 0:
            raise MachineryError("CKY.tla: design-level check failed (the model, not the code):\n" + res.errhead)
        report.add_tlc(res, f"CKY.tla: CNF grammars with <= {maxrules} rules, weights {{{ws}}}, all token sequences <= 3: "
                            "ColumnsAreInside, NextTokenIsExtension")
    semantic_core(report, ["PrefixRecurrence", "PrefixEmpty"], maxrules=2)
    semantic_core(report, ["RLClosedForm"], maxrules=3, weights="<- RatWeights", sr="Rat")


def run(report, tier, seed):
    import random
    import threading
    box = {}

    def bg():                      # Generation.tla is checked while the other models and the generators run
        try:
            box["events"] = generation_model(report, tier)
        except BaseException as ex:   # noqa: BLE001 - re-raised in the main thread
            box["error"] = ex

    th = threading.Thread(target=bg)
    th.start()

    def lazy():
        th.join()
        if "error" in box:
            raise box["error"]
        events, todo = box["events"]
        for f in todo:
            f()
        yield from events

    try:
        model_check(report, tier)
    except BaseException:
        th.join()
        raise
    import itertools
    extra = itertools.chain(long_context_events(random.Random(seed + 4), tier), lazy())
    standard_run(report, "C04", MODULE, tier, seed, selftests, extra_events=extra,
                 rule=("exact-rational grammars with finitely many derivations (normalised or not, nullable parts, the empty "
                       "string), all contexts up to L (viable or not, and one containing eos), the three LM back-ends on warm "
                       "and cold objects: p_next (sums to one, proportional to prefix weights, eos gets Weight(ctx)), "
                       "lm(x eos) * Z = Weight(x), LM.sample with a scripted draw (every draw from the exact conditional and its "
                       "support, returned probability = Weight(ys)/Z; TLC-generated complete behaviours of Generation.tla and "
                       "random walks, with and without max_tokens), unnormalised next-token weights = PrefixWeight(ctx.t) = parser(ctx.t); "
                       "Sat(3) grammars with arbitrary recursion for the unnormalised identity"))


def replay(report, rp):
    return generic_replay(report, rp, gops.event)
