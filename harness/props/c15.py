"""C15 - the algebraic path solver computes closures and least solutions."""
import copy

import lops
from check import standard_run, generic_replay

MODULE = "TraceLinear"


def generate(rng, tier, shard, nshards):
    n = 40 if tier == "quick" else 400
    for i in range(n):
        srn, kw = [("Sat3", {}), ("Bool", {}), ("RatU", {"contractive": True}), ("Sat2", {}), ("RatU", {"acyclic": True}),
                   ("Rat", {"acyclic": True}), ("MaxTimes", {"acyclic": True}), ("BM2", {}),
                   ("MaxTimes", {"leq1": True}), ("RatU", {"contractive": True, "signed": True})][i % 10]
        A = lops.rand_graph(rng, srn, rng.choice([1, 2, 3, 4, 5]), rng.choice([0, 2, 4, 7, 10]), **kw)
        feat = lops.gfeat(A)
        style = rng.choice(lops.NODE_STYLES)
        base = {"sr": srn, "A": A, "style": style}
        if i % 2 == 1:       # a history of earlier queries on the same graph object
            base["pre"] = [rng.choice(lops.GRAPH_PRE) for _ in range(rng.randint(1, 3))]
            feat = feat + "+history"
        for how in ("scc", "reference", "closure"):
            yield lops.event("closure", dict(base, how=how), site=f"closure[{how}]", feat=feat)
        R = lops.SR[srn]
        ws = [[1, 2], [1, 1]] if srn in ("RatU", "Rat", "MaxTimes") else [1, 1, 2 if srn != "Bool" else 1]
        if srn == "BM2":
            ws = [[1, 0, 0, 1], [0, 1, 0, 0], [1, 1, 0, 0], [0, 0, 1, 0]]
        b = [[j, rng.choice(ws)] for j in range(A["n"]) if rng.random() < 0.6]
        for side in ("left", "right"):
            yield lops.event("solve", dict(base, b=b, side=side), site=f"solve_{side}", feat=feat)
            if rng.random() < 0.5:       # the caller's right-hand side is reused for a second solve
                yield lops.event("solve", dict(base, b=b, side=side, before=[rng.choice(["left", "right"])]),
                                 site=f"solve_{side}[b reused]", feat=feat + "+rhs-reused")
        yield lops.event("blocks", base, site="blocks", feat=feat)


def order_events(rng, tier):
    """(C) every graph on 3 nodes (the scope of Tarjan.tla) under sampled visiting orders, on the real function."""
    import itertools
    out = []
    n = 3
    pairs = [(i, j) for i in range(n) for j in range(n)]
    for mask in range(2 ** len(pairs)):
        edges = [[i, j, 1] for k, (i, j) in enumerate(pairs) if mask >> k & 1]
        A = {"n": n, "edges": edges}
        for _ in range(2 if tier == "quick" else 12):
            roots = list(range(n))
            rng.shuffle(roots)
            rank = []
            for v in range(n):
                r = list(range(n))
                rng.shuffle(r)
                rank.append(r)
            out.append(lops.event("blocks_order", {"sr": "Bool", "A": A, "roots": roots, "succ_rank": rank},
                                  site="scc_decomposition[order]", feat="visit-order/" + lops.gfeat(A)))
    return out


TARJAN_CFG = """CONSTANTS N = %d
 MAXE = %d
INIT Init
NEXT Next
INVARIANT Partition
INVARIANT TopoOrder
INVARIANT EmittedAreSCCs
CHECK_DEADLOCK FALSE
"""


def model_check(report, tier):
    from common import run_tlc, MachineryError
    for n, maxe in ([(3, 9)] if tier == "quick" else [(3, 9), (4, 5)]):
        res = run_tlc("Tarjan", TARJAN_CFG % (n, maxe), timeout=6000)
        if not res.ok or res.left != 0:
            raise MachineryError("Tarjan.tla: design-level check failed (the model, not the code):\n" + res.errhead)
        report.add_tlc(res, f"Tarjan.tla: every graph on {n} nodes with <= {maxe} edges x every root order x every successor "
                            "order: Partition, TopoOrder, EmittedAreSCCs")


def selftests(events, rng):
    out = []
    cands = [e for e in events if "exc" not in e and e["op"] == "closure" and e["K"]]
    rng.shuffle(cands)
    for e in cands[:8]:
        c = copy.deepcopy(e)
        c["expect"] = "reject"
        c["K"] = c["K"][1:]                 # a non-zero entry of the closure is missing
        out.append(c)
    cands = [e for e in events if "exc" not in e and e["op"] == "blocks" and len(e["blocks"]) >= 2]
    for e in cands[:6]:
        c = copy.deepcopy(e)
        c["expect"] = "reject"
        c["blocks"] = [c["blocks"][0] + c["blocks"][1]] + c["blocks"][2:]    # two components merged
        out.append(c)
    return out


def run(report, tier, seed):
    import random
    model_check(report, tier)
    standard_run(report, "C15", MODULE, tier, seed, selftests, trivial=("acyclic", "visit-order/acyclic"),
                 extra_events=order_events(random.Random(seed + 9), tier),
                 sample_keys=("op", "sr", "A", "K", "b", "x", "blocks", "site"),
                 rule=("random graphs (1-5 nodes of mixed name types, self loops, nested cycles, isolated nodes) over "
                       "Sat3/Sat2/Bool (closure = least fixed point of K = I + K A reached exactly), exact rationals (acyclic: "
                       "finite path sums; cyclic contractive: the unique solution checked by substitution) and MaxTimes: "
                       "closure_scc_based, closure_reference, closure(), solve_left/right, blocks (= SCCs, edge-compatible "
                       "order); non-trivial = graph has a cycle"))


def replay(report, rp):
    return generic_replay(report, rp, lops.event)
