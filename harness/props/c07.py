"""C07 - normal forms satisfy their structural postconditions."""
import gops
import tfm_common as tc
from check import standard_run, generic_replay

generate = tc.generate
RELEVANT = tc.POSTS | {"raised"}


def run(report, tier, seed):
    standard_run(report, "C07", tc.MODULE, tier, seed, tc.selftests, relevant=RELEVANT,
                 rule=("same calls as C06; TLC evaluates the structural predicates of Grammars.tla (InCNF, "
                       "NoNullaryExceptStart, NoUnary, NoUnaryCycle, ArityLeq2, StartNotOnRhs, "
                       "TerminalsOnlyInPreterminals, Trimmed, CoTrimmed) on the code's output grammar; non-trivial = "
                       "grammar has a named structural feature"))


def replay(report, rp):
    return generic_replay(report, rp, gops.event, relevant=RELEVANT)
