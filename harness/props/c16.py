"""C16 - the shipped weight types obey the closed-semiring laws."""
import copy
import itertools
from fractions import Fraction

import lops
from check import judge, standard_run, generic_replay
from common import run_tlc, MachineryError

MODULE = "TraceLinear"
TYPES = ["Boolean", "Real", "Float", "FloatF", "MaxPlus", "MaxTimes", "Log", "Expectation", "Entropy"]


def rats(ns, ds):
    out = []
    for n in ns:
        for d in ds:
            q = Fraction(n, d)
            v = [q.numerator, q.denominator]
            if v not in out:
                out.append(v)
    return out


def carrier(tp, tier):
    big = tier != "quick"
    if tp == "Boolean":
        return [0, 1]
    if tp in ("Real", "Float", "FloatF", "MaxTimes", "Log"):
        return rats(range(0, 4 if not big else 6), range(1, 4 if not big else 6))
    if tp == "MaxPlus":
        return [[0]] + [[1, k] for k in range(-2, 3)]
    if tp in ("Expectation", "Entropy"):
        ps = rats(range(0, 3), range(1, 3))
        return [[p, r] for p in ps for r in ps]
    raise ValueError(tp)


def star_defined(tp, v):
    if tp == "Boolean":
        return True
    if tp in ("Real", "Float", "FloatF", "Log"):
        return Fraction(v[0], v[1]) < 1
    if tp == "MaxTimes":
        return Fraction(v[0], v[1]) <= 1
    if tp == "MaxPlus":
        return v == [0] or v[1] <= 0
    return Fraction(v[0][0], v[0][1]) < 1


def generate(rng, tier, shard, nshards):
    k = 0
    for tp in TYPES:
        C = carrier(tp, tier)
        for fn in ("zero", "one"):
            if k % nshards == shard:
                yield lops.event("semiring", {"type": tp, "fn": fn}, site=f"{tp}.{fn}", feat="constant")
            k += 1
        for a in C:
            if star_defined(tp, a):
                if k % nshards == shard:
                    yield lops.event("semiring", {"type": tp, "fn": "star", "a": a}, site=f"{tp}.star", feat="star")
                k += 1
        for a, b in itertools.product(C, C):
            for fn in ("add", "mul", "iadd", "imul"):
                for fresh, fresh2 in ((True, True), (False, False)) if tp not in ("Float", "FloatF") else ((True, True),):
                    if k % nshards == shard:
                        yield lops.event("semiring", {"type": tp, "fn": fn, "a": a, "b": b, "fresh": fresh, "fresh2": fresh2},
                                         site=f"{tp}.{fn}", feat=f"{fn}" + ("" if fresh else "/singletons"))
                    k += 1


def selftests(events, rng):
    out = []
    cands = [e for e in events if "exc" not in e and e["fn"] in ("add", "mul", "star")]
    rng.shuffle(cands)
    for e in cands[:16]:
        c = copy.deepcopy(e)
        c["expect"] = "reject"
        r = c["res"]
        if isinstance(r, int):
            c["res"] = 1 - r
        elif c["sr"] == "MaxPlus":
            c["res"] = [1, 7] if r == [0] else [1, r[1] + 1]
        elif c["sr"] == "Expect":
            c["res"] = [[r[0][0] + 5 * r[0][1], r[0][1]] if len(r[0]) == 2 else [r[0][0] + 5000, r[0][1], 0], r[1]]
        else:
            c["res"] = [r[0] + 5 * r[1], r[1]] if len(r) == 2 else [r[0] + 5000, r[1], 0]
        out.append(c)
    return out


def run(report, tier, seed):
    res = run_tlc("MCWeights", "INIT Init\nNEXT Next\nINVARIANT Laws\nCHECK_DEADLOCK FALSE\n", timeout=900)
    if not res.ok:
        raise MachineryError("MCWeights: the model's semirings violate a law:\n" + res.errhead)
    report.add_tlc(res, "MCWeights: all semiring laws and the star law on every triple of every model carrier")
    res = run_tlc("SemiringsTest", "INIT Init\nNEXT Next\nCHECK_DEADLOCK FALSE\n", timeout=300, workers=1)
    if not res.ok:
        raise MachineryError("SemiringsTest: a unit check of the model arithmetic failed:\n" + res.errhead)
    report.add_tlc(res, "SemiringsTest: unit checks of the rational / two-limb fixed-point arithmetic and of the NaR sentinel "
                        "for results outside the 32-bit range")
    standard_run(report, "C16", MODULE, tier, seed, selftests, trivial=(),
                 sample_keys=("op", "type", "fn", "a", "b", "res", "site"),
                 rule=("exhaustive operation tables of the 8 shipped types (Float both with exact and with float operands) on "
                       "the model carriers: real a+b, a*b, star(a), zero, one (singleton objects and freshly constructed equal "
                       "values) abstracted to the model domain and compared by TLC with Semirings.tla (exact; 2^-20 fixed point "
                       "where the class computes in floating point: Log, float operands); the laws themselves are "
                       "model-checked on all triples of the carriers (MCWeights.tla)"))
    report.exhaustive = True
    report.assumptions.append("the laws are checked exhaustively on the finite model carriers only; rounding error of floating-point "
                              "weights is outside the model (values are compared through a 2^-20 fixed-point abstraction)")


def replay(report, rp):
    return generic_replay(report, rp, lops.event)
