"""C08 - total weights are the least solution of the grammar equations."""
import copy

import families as fam
import gops
from check import standard_run, generic_replay
from project import cfg_proj

MODULE = "TraceGrammar"
FAMILIES = [("Sat3", "any"), ("Sat3", "any"), ("Rat", "acyclic"), ("Bool", "any"), ("Sat2", "any"), ("RatU", "acyclic"),
            ("MaxTimes", "acyclic"), ("Sat3", "chord")]


def generate(rng, tier, shard, nshards):
    event = gops.variant_event(rng)
    for G in fam.tlc_family(shard, nshards):      # (C) the exhaustive family enumerated by TLC
        for how in ("agenda", "naive"):
            yield event("treesum", {"sr": "Sat3", "G": G, "how": how}, site=how, feat="tlc-family")
    n = 60 if tier == "quick" else 600
    for gi in range(n):
        srn, shape = FAMILIES[gi % len(FAMILIES)]
        R = gops.SR[srn]
        g = fam.rand_cfg(rng, R, shape=shape, nN=rng.choice([2, 3, 4, 5]), nrules=rng.choice([3, 5, 8]))
        feat = fam.feature_key(g)
        names = rng.choice(["str", "int", "tuple", "mixed"])
        if gi % 3 == 0:
            g = fam.permuted(g, rng)
        G, _ = cfg_proj(g)
        base = {"sr": srn, "G": G, "names": names}
        if gi % 3 == 1:
            base["pre"] = [rng.choice(["agenda", "treesum", "naive", "agenda_maxiter", "treesum_maxiter", "treesum_tol", "agenda_tol", "trim", "cnf"]) for _ in range(rng.randint(1, 2))]
            feat = feat + "+history"
            # the judged call names the same option as an earlier call on the object, with another value
            last = base["pre"][-1]
            if last.endswith("_maxiter"):
                base["kw"] = {"maxiter": 100000}
                feat = feat + "+same-option-other-value"
            elif last.endswith("_tol"):
                base["kw"] = {"tol": 1e-12}
                feat = feat + "+same-option-other-value"
        elif gi % 3 == 2 and len(G["rules"]) >= 2:
            base["late"] = rng.randint(1, len(G["rules"]) - 1)      # rules added after a first evaluation
            feat = feat + "+rules-added-after-evaluation"
        yield event("treesum", dict(base, how="agenda"), site="agenda", feat=feat)
        yield event("treesum", dict(base, how="naive"), site="naive_bottom_up", feat=feat)
        yield event("treesum", dict(base, how="treesum", twice=(gi % 2 == 0)), site="treesum", feat=feat)
        if srn == "Rat":
            yield event("explen", {k: v for k, v in base.items() if k not in ("pre", "late", "kw")}, site="expected_length", feat=feat)
    if shard == 1:
        # proper right-linear grammars whose inner blocks converge slowly (loops of weight close to one): every total
        # is one; the blocks above a slowly converging block must still be evaluated
        # (6666/6667)^100000 = 3e-7: the default iteration cap is reached in the inner block while its value is already
        # within the fixed-point tolerance of one; slower loops would be cut off by `maxiter` by design
        for loop in ([6666, 6667], [2047, 2048], [1, 2]):
            rest = [loop[1] - loop[0], loop[1]]
            G = {"S": "#0", "V": ["a", "b"],
                 "rules": [{"w": [1, 2], "h": "#0", "b": ["a", "#1"]}, {"w": [1, 2], "h": "#0", "b": []},
                           {"w": loop, "h": "#1", "b": ["b", "#1"]}, {"w": rest, "h": "#1", "b": []}]}
            yield event("treesumrl", {"G": G}, site="agenda[slow convergence]", feat="slow-convergence", timeout=300)
    if shard == 0:
        # many contributions that are individually below the convergence tolerance (large vocabularies):
        # the total is far above it and must be reported
        for nrules, w, tol in ((200, [1, 262144], 1e-4), (200, [1, 4096], 1e-3)):
            G = {"S": "#0", "V": ["a", "b"],
                 "rules": [{"w": [1, 1], "h": "#0", "b": ["#1", "a"]}] + [{"w": w, "h": "#1", "b": ["b"]}] * nrules}
            yield event("treesum", {"sr": "Rat", "G": G, "how": "agenda", "tol": tol}, site="agenda(tol)",
                             feat="many-subtolerance-contributions", timeout=120)


def schedule_events(rng, tier):
    """Every pop order of the agenda on the real code (stateless search over the choosing chart)."""
    import vchart
    out = []
    n = 30 if tier == "quick" else 300
    for gi in range(n):
        srn = "Sat3"
        R = gops.SR[srn]
        rules = fam.rand_rules(rng, R, nN=3, nrules=rng.choice([2, 3, 4]), maxbody=2)
        Ns = ["S", "A", "B"]
        x, y = rng.sample(Ns, 2)               # mutually recursive symbols share a bucket: several pending updates
        ws = fam.weights_for(R)
        rules += [(rng.choice(ws), x, (y, "a")), (rng.choice(ws), y, (x,) if rng.random() < 0.5 else ("b", x)),
                  (rng.choice(ws), y, ("b",)), (rng.choice(ws), x, (y, y) if rng.random() < 0.5 else ("a",))]
        rng.shuffle(rules)
        g = fam.build_cfg(R, rules)
        G, _ = cfg_proj(g)
        feat = fam.feature_key(g)
        stack, seen = [()], 0
        while stack and seen < (12 if tier == "quick" else 100):
            script = stack.pop()
            e = gops.event("treesum", {"sr": srn, "G": G, "how": "agenda", "popscript": list(script)},
                           site="agenda[pop-order]", feat=("pop-order/" + feat) if script else feat)
            ar = list(vchart.CTRL.arities or [])
            seen += 1
            out.append(e)
            for p in range(len(script), len(ar)):
                for alt in range(1, ar[p]):
                    stack.append(tuple(script) + (0,) * (p - len(script)) + (alt,))
    return out


MC_CFG = """CONSTANTS NTS = {"S", "A"}
 TS = {"a"}
 MAXBODY = 2
 MAXRULES = %d
 WEIGHTS = {%s}
 SRNAME = "Sat3"
INIT Init
NEXT Next
INVARIANT NoLateUpdate
INVARIANT Bounded
INVARIANT Final
CHECK_DEADLOCK FALSE
"""


def model_check(report, tier):
    """(A) Treesum.tla: every grammar of the scope x every compatible bucket numbering x every pop order."""
    from common import run_tlc, MachineryError
    for maxrules, ws in ([(2, "1, 2")] if tier == "quick" else [(2, "1, 2"), (3, "1")]):
        res = run_tlc("Treesum", MC_CFG % (maxrules, ws), timeout=3000)
        if not res.ok or res.left != 0:
            raise MachineryError("Treesum.tla: design-level check failed (the model, not the code):\n" + res.errhead)
        report.add_tlc(res, f"Treesum.tla <= {maxrules} rules, weights {{{ws}}}: NoLateUpdate, Bounded, Final for every pop order")


def selftests(events, rng):
    out = []
    cands = [e for e in events if "exc" not in e and e["op"] == "treesum" and e["chart"]]
    rng.shuffle(cands)
    for e in cands[:10]:
        c = copy.deepcopy(e)
        c["expect"] = "reject"
        v = c["chart"][0][1]
        c["chart"][0][1] = (0 if v else 1) if isinstance(v, int) else [v[0] + 1, v[1]]
        out.append(c)
    cands = [e for e in events if "exc" not in e and e["op"] in ("explen", "treesum1")]
    for e in cands[:4]:
        c = copy.deepcopy(e)
        c["expect"] = "reject"
        from check import corrupt_value
        c["res"] = corrupt_value(c["res"])
        out.append(c)
    return out


def run(report, tier, seed):
    import random
    from common import semantic_core
    model_check(report, tier)
    famfile = semantic_core(report, ["TotalIsSum", "PrefixEmpty"], maxrules=2)
    standard_run(report, "C08", MODULE, tier, seed, selftests, extra_events=schedule_events(random.Random(seed + 3), tier),
                 extra_env={"VERIF_FAMILY": famfile},
                 rule=("random grammars: Sat3/Sat2/Bool with arbitrary recursion (least fixed point reached exactly by "
                       "Kleene iteration in TLC), exact rationals and MaxTimes on grammars with finitely many "
                       "derivations; agenda() and naive_bottom_up() charts for every nonterminal, expected_length via "
                       "the expectation semiring; non-trivial = grammar has a named structural feature"))


def replay(report, rp):
    return generic_replay(report, rp, gops.event)
