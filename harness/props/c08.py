"""C08 - total weights are the least solution of the grammar equations."""
import copy

import families as fam
import gops
from check import standard_run, generic_replay
from project import cfg_proj

MODULE = "TraceGrammar"
FAMILIES = [("Sat3", "any"), ("Sat3", "any"), ("Rat", "acyclic"), ("Bool", "any"), ("Sat2", "any"), ("RatU", "acyclic"),
            ("MaxTimes", "acyclic")]


def generate(rng, tier, shard, nshards):
    n = 60 if tier == "quick" else 600
    for gi in range(n):
        srn, shape = FAMILIES[gi % len(FAMILIES)]
        R = gops.SR[srn]
        g = fam.rand_cfg(rng, R, shape=shape, nN=rng.choice([2, 3, 4, 5]), nrules=rng.choice([3, 5, 8]))
        feat = fam.feature_key(g)
        names = rng.choice(["str", "int", "tuple", "mixed"])
        if gi % 3 == 0:
            g = fam.permuted(g, rng)
        G, _ = cfg_proj(g)
        base = {"sr": srn, "G": G, "names": names}
        if gi % 3 == 1:
            base["pre"] = [rng.choice(["agenda", "treesum", "naive", "agenda_maxiter", "trim", "cnf"]) for _ in range(rng.randint(1, 2))]
            feat = feat + "+history"
        elif gi % 3 == 2 and len(G["rules"]) >= 2:
            base["late"] = rng.randint(1, len(G["rules"]) - 1)      # rules added after a first evaluation
            feat = feat + "+rules-added-after-evaluation"
        yield gops.event("treesum", dict(base, how="agenda"), site="agenda", feat=feat)
        yield gops.event("treesum", dict(base, how="naive"), site="naive_bottom_up", feat=feat)
        if srn == "Rat":
            yield gops.event("explen", {k: v for k, v in base.items() if k not in ("pre", "late")}, site="expected_length", feat=feat)
    if shard == 0:
        # many contributions that are individually below the convergence tolerance (large vocabularies):
        # the total is far above it and must be reported
        for nrules, w, tol in ((200, [1, 262144], 1e-4), (200, [1, 4096], 1e-3)):
            G = {"S": "#0", "V": ["a", "b"],
                 "rules": [{"w": [1, 1], "h": "#0", "b": ["#1", "a"]}] + [{"w": w, "h": "#1", "b": ["b"]}] * nrules}
            yield gops.event("treesum", {"sr": "Rat", "G": G, "how": "agenda", "tol": tol}, site="agenda(tol)",
                             feat="many-subtolerance-contributions", timeout=120)


def selftests(events, rng):
    out = []
    cands = [e for e in events if "exc" not in e and e["op"] == "treesum" and e["chart"]]
    rng.shuffle(cands)
    for e in cands[:10]:
        c = copy.deepcopy(e)
        c["expect"] = "reject"
        v = c["chart"][0][1]
        c["chart"][0][1] = (0 if v else 1) if isinstance(v, int) else [v[0] + 1, v[1]]
        out.append(c)
    cands = [e for e in events if "exc" not in e and e["op"] == "explen"]
    for e in cands[:4]:
        c = copy.deepcopy(e)
        c["expect"] = "reject"
        c["res"] = [c["res"][0] + 1, c["res"][1]]
        out.append(c)
    return out


def run(report, tier, seed):
    standard_run(report, "C08", MODULE, tier, seed, selftests,
                 rule=("random grammars: Sat3/Sat2/Bool with arbitrary recursion (least fixed point reached exactly by "
                       "Kleene iteration in TLC), exact rationals and MaxTimes on grammars with finitely many "
                       "derivations; agenda() and naive_bottom_up() charts for every nonterminal, expected_length via "
                       "the expectation semiring; non-trivial = grammar has a named structural feature"))


def replay(report, rp):
    return generic_replay(report, rp, gops.event)
