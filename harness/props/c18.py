"""C18 - regex automata accept exactly the regex language and are normalised."""
import copy

import rops
from check import standard_run, generic_replay

MODULE = "TraceRegex"


def generate(rng, tier, shard, nshards):
    n = 60 if tier == "quick" else 600
    for i in range(n):
        k = rng.choice([3, 3, 4, 5])
        cs = rng.sample(rops.CHARS, k)
        pool = cs + rng.sample(rops.CHARS, 2)          # the pattern may mention characters outside the set
        r = rops.rand_re(rng, pool)
        L = 3 if k <= 4 else 2
        dead = i % 5 == 1
        if dead:
            # a branch that dies only relative to the character set: x [^ all of the set] -- the compiled FSM still has
            # a way on (any character outside the set), the automaton over the set has none
            k = rng.choice([2, 3])
            cs = rng.sample(rops.CHARS, k)
            pool = list(cs)
            hole = {"t": "cat", "l": {"t": "lit", "c": cs[0]}, "r": {"t": "ncls", "cs": list(cs)}}
            if rng.random() < 0.5:
                hole = {"t": "cat", "l": hole, "r": rops.rand_re(rng, pool)}
            r = {"t": "alt", "l": hole, "r": rops.rand_re(rng, pool)} if rng.random() < 0.85 else hole
            if rng.random() < 0.3:
                r = {"t": "cat", "l": rops.rand_re(rng, pool), "r": r}
            L = 3
        args = {"re": r, "cs": sorted(cs), "L": L if tier == "quick" else L + 1}
        ft = rops.refeat(r) + ("+charset-dead-branch" if dead else "")
        if i % 3 == 0:        # the caller reuses one character-set object for several patterns
            args["warm"] = [rops.rand_re(rng, pool) for _ in range(rng.randint(1, 2))]
            ft = ft + "+charset-reused"
        if i % 3 == 1:       # one long string, too: weights far below 1e-8 are still weights
            args["long"] = rng.choice([25, 40])
            args["spoil"] = rng.random() < 0.3
        if i % 4 == 2:       # the automaton is an operand of other constructions (closures, sums, byte conversion) first
            args["used"] = [rng.choice(["kleene_plus", "star", "add", "mul", "min", "epsremove", "to_bytes"])
                            for _ in range(rng.randint(1, 2))]
            ft = ft + "+used-as-operand"
        yield rops.event("regex", args, site="interegular_to_wfsa", feat=ft)
    if shard == 0:
        for pat_re, cs in [({"t": "ci", "e": {"t": "lit", "c": "ß"}}, ["ß", "s", "S"]),
                           ({"t": "ci", "e": {"t": "lit", "c": "k"}}, ["k", "K", "K"]),
                           ({"t": "ci", "e": {"t": "cls", "cs": ["a", "ß"]}}, ["a", "A", "ß", "S"]),
                           ({"t": "ncls", "cs": ["a"]}, ["a", "é", "ß"]),
                           ({"t": "cat", "l": {"t": "dot"}, "r": {"t": "star", "e": {"t": "dot"}}}, ["é", "ü"])]:
            yield rops.event("regex", {"re": pat_re, "cs": cs, "L": 3}, site="interegular_to_wfsa", feat="special-" + rops.refeat(pat_re))


def selftests(events, rng):
    out = []
    cands = [e for e in events if "exc" not in e and e["acc"]]
    rng.shuffle(cands)
    for e in cands[:8]:
        c = copy.deepcopy(e)
        c["expect"] = "reject"
        c["acc"] = c["acc"][1:]
        out.append(c)
    cands = [e for e in events if "exc" not in e and e["M"]["arcs"]]
    for e in cands[:6]:
        c = copy.deepcopy(e)
        c["expect"] = "reject"
        c["M"]["arcs"].append(list(c["M"]["arcs"][0]))         # one arc counted twice: mass > 1 at its source
        out.append(c)
    return out


def run(report, tier, seed):
    standard_run(report, "C18", MODULE, tier, seed, selftests,
                 sample_keys=("op", "pat", "cs", "acc", "site"),
                 rule=("random regex ASTs of depth <= 3 (literals, classes, negated classes, dot, concatenation, alternation, "
                       "* + ? {m,n}, case-insensitive groups) over character sets of 3-5 characters including non-ASCII and "
                       "characters outside the pattern: the set of strings up to L with non-zero weight equals the language "
                       "computed by TLC from Regex.tla (cross-checked against re.fullmatch as an oracle sanity test); every "
                       "state's outgoing + final mass is one (2^-20 fixed point), no epsilon arc, every label a single "
                       "character of the set"))
    report.assumptions.append("the pattern printer, interegular's parser and Python's re case table are trusted")


def replay(report, rp):
    return generic_replay(report, rp, rops.event)
