"""C19 - character- and byte-level grammars built from Lark grammars."""
import copy
import itertools

import rops
from check import standard_run, generic_replay

MODULE = "TraceRegex"
CHARSETS = [["a", "b", " "], ["a", "é", " "], ["x", "ü", "€"], ["a", "b", "ñ"], ["é", "ü", "ö"], ["a", "A", "ß"],
            ["—", "、", "a"], ["€", "、", "—"], ["ß", "S", "s"], ["a", "ß", "S"], ["€", "ア", "a"],
            ["\x00", "\x01", "a"]]     # U+0000: the byte 0 is a falsy label          # 3-byte characters with different lead and equal continuation bytes


def feat(LG):
    f = []
    if LG["ignore"]:
        f.append("ignore")
    if any(y["op"] for r in LG["rules"] for alt in r["alts"] for y in alt):
        f.append("ebnf")
    if len(LG["rules"]) > 1:
        f.append("multirule")
    if any(t["ci"] for t in LG["terms"]):
        f.append("ci")
    return "+".join(f) or "plain"


def generate(rng, tier, shard, nshards):
    n = 10 if tier == "quick" else 60
    for i in range(n):
        cs = CHARSETS[rng.randrange(len(CHARSETS))]
        LG = rops.rand_lark(rng, cs)
        ft = feat(LG) + ("+multibyte" if any(len(c.encode()) > 1 for c in cs) else "")
        rec = rng.choice(["left", "right"])
        of = i % 2 == 1
        oc = CHARSETS[rng.randrange(len(CHARSETS))] if i % 3 == 0 else None
        yield rops.event("lark", {"LG": LG, "cs": cs, "L": 3, "recursion": rec, "other_first": of, "other_charset": oc}, site=f"char_cfg[{rec}]",
                         feat=ft + ("+same-object" if of else ""), timeout=120)
        yield rops.event("larkbytes", {"LG": LG, "cs": cs, "L": 3 if tier == "quick" else 4, "other_first": not of,
                                       "other_charset": oc}, site="byte_cfg",
                         feat=ft + ("+same-object" if not of else ""), timeout=240)
        if i % 2 == 0:
            texts = [list(p) for k in range(3) for p in itertools.product(cs, repeat=k)]
            rng.shuffle(texts)
            yield rops.event("accepts", {"LG": LG, "cs": cs, "level": "char", "cands": texts[:8], "recursion": rec,
                                         "lm": rng.choice([None, "earley", "cky"])},
                             site="char_cfg as a grammar", feat=ft, timeout=120)
            bvals = sorted({b for c in cs for b in c.encode("utf-8")})
            bts = [list(p) for k in range(1, 4) for p in itertools.product(bvals, repeat=k)]
            rng.shuffle(bts)
            enc = [list("".join(t).encode("utf-8")) for t in texts[:12] if len("".join(t).encode("utf-8")) <= 4]
            yield rops.event("accepts", {"LG": LG, "cs": cs, "level": "byte", "cands": bts[:5] + enc[:5]},
                             site="byte_cfg as a grammar", feat=ft, timeout=120)
    if shard == 0:
        # two terminals whose multi-byte alternatives need fresh chain states (names must not collide across terminals)
        LG = {"start": "start", "rules": [{"h": "start", "alts": [[{"s": "A", "op": ""}, {"s": "B", "op": ""}]]}],
              "terms": [{"name": "A", "re": {"t": "alt", "l": {"t": "lit", "c": "é"}, "r": {"t": "lit", "c": "ü"}}, "ci": False},
                        {"name": "B", "re": {"t": "alt", "l": {"t": "lit", "c": "ö"}, "r": {"t": "lit", "c": "ñ"}}, "ci": False}],
              "ignore": []}
        cs = ["é", "ü", "ö", "ñ"]
        yield rops.event("lark", {"LG": LG, "cs": cs, "L": 2}, site="char_cfg[right]", feat="two-multibyte-terminals", timeout=120)
        yield rops.event("larkbytes", {"LG": LG, "cs": cs, "L": 4}, site="byte_cfg", feat="two-multibyte-terminals", timeout=600)


def selftests(events, rng):
    out = []
    for e in [e for e in events if "exc" not in e and e["op"] == "lark" and e["acc"]][:5]:
        c = copy.deepcopy(e)
        c["expect"] = "reject"
        c["acc"] = c["acc"][1:]
        out.append(c)
    for e in [e for e in events if "exc" not in e and e["op"] == "larkbytes" and e["bacc"]][:5]:
        c = copy.deepcopy(e)
        c["expect"] = "reject"
        c["bacc"] = c["bacc"][:-1]
        out.append(c)
    for e in [e for e in events if "exc" not in e and e["op"] == "accepts" and e["yes"]][:4]:
        c = copy.deepcopy(e)
        c["expect"] = "reject"
        c["no"] = c["no"] + [c["yes"][0]]
        c["yes"] = c["yes"][1:]
        out.append(c)
    return out


def run(report, tier, seed):
    standard_run(report, "C19", MODULE, tier, seed, selftests, nproc=16,
                 sample_keys=("op", "text", "cs", "acc", "bacc", "site"),
                 rule=("random Lark grammars (1-3 rules with ? * + |, 1-3 terminals given as strings or regexes, "
                       "case-insensitive terminals, with/without %ignore, characters of 1-3 UTF-8 bytes) rendered to Lark "
                       "syntax: the set of texts up to L accepted by char_cfg (left/right recursion) equals CharLang of "
                       "Lark.tla; the byte strings up to L accepted by byte_cfg are exactly the UTF-8 encodings of CharLang "
                       "(truncated encodings rejected); the produced grammars themselves are evaluated by the oracle on "
                       "sampled strings; terminal and nonterminal names are disjoint"))
    report.assumptions.append("lark's grammar loader, interegular's regex parser and the Lark/regex pretty-printer are trusted")


def replay(report, rp):
    return generic_replay(report, rp, rops.event)
