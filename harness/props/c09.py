"""C09 - grammar-transducer composition is relational composition."""
import copy

import aops
import families as fam
import gops
from check import standard_run, generic_replay, selftest_numeric
from project import cfg_proj

MODULE = "TraceAutomata"


def generate(rng, tier, shard, nshards):
    event = aops.variant_event(rng, skip=())
    n = 16 if tier == "quick" else 160
    L = 2
    sig = ["a", "b"]
    for i in range(n):
        srn = ["Sat3", "Sat3", "Bool", "RatU", "Sat2", "Rat"][i % 6]
        R = gops.SR[srn]
        exact = srn in ("RatU", "Rat")
        g = fam.rand_cfg(rng, R, shape="acyclic" if exact else "any", nN=rng.choice([2, 3]), nrules=rng.choice([3, 4]),
                         maxbody=2)
        if not exact and i % 2 == 0:
            g = fam.ensure_language(g, rng)
        G, _ = cfg_proj(g)
        gfeat = fam.feature_key(g)
        kind = i % 4
        if kind == 1:      # pure insertion: epsilon only on the input tape
            T = aops.rand_fst(rng, srn, nS=rng.choice([1, 2, 3]), narcs=rng.choice([3, 5]), ins=("a", "b", "", ""), outs=("a", "b"), acyclic=exact)
        elif kind == 2:    # pure deletion: epsilon only on the output tape
            T = aops.rand_fst(rng, srn, nS=rng.choice([1, 2, 3]), narcs=rng.choice([3, 5]), ins=("a", "b"), outs=("a", "b", "", ""), acyclic=exact)
        else:
            T = aops.rand_fst(rng, srn, nS=rng.choice([1, 2, 2, 3]), narcs=rng.choice([2, 4, 5]), acyclic=exact)
        sigB = sig
        if i % 5 == 4:
            # the transducer writes another alphabet than it reads (symbols of the grammar that the output tape never
            # shows, epsilon-input arcs in front of them)
            T["arcs"] = [[p, a, {"a": "x", "b": "y"}.get(b, b), q, w] for p, a, b, q, w in T["arcs"]]
            if not any(r[1] == "" for r in T["arcs"]):
                T["arcs"].append([0, "", "x", 0 if not exact else min(1, T["n"] - 1), T["I"][0][1]])
                if exact and T["n"] == 1:
                    T["arcs"].pop()
            sigB = ["x", "y"]
        feat = "+".join(x for x in ["epsin" if any(r[1] == "" for r in T["arcs"]) else "",
                                    "other-output-alphabet" if sigB != sig else "",
                                    "delete" if any(r[1] != "" and r[2] == "" for r in T["arcs"]) else "",
                                    "epseps" if any(r[1] == r[2] == "" for r in T["arcs"]) else "",
                                    "multiIF" if len(T["I"]) > 1 or len(T["F"]) > 1 else ""] if x) or "plain"
        feat = feat + "/" + gfeat
        names, st = rng.choice(["str", "int", "tuple"]), rng.choice(aops.STATE_STYLES)
        base = {"sr": srn, "G": G, "names": names, "style": st, "sigmaB": sigB, "L": L}
        for how in ("cfg@fst", "fst.T@cfg"):
            Tx = T if how == "cfg@fst" else {"n": T["n"], "I": T["I"], "F": T["F"],
                                             "arcs": [[p, b, a, q, w] for p, a, b, q, w in T["arcs"]]}
            yield event("gcompose", dict(base, T=T, how=how), site=how, feat=feat, timeout=60)
        for y in fam.strings(sigB, 2):
            if rng.random() < 0.5:
                yield event("gcall", dict(base, T=T, y=list(y), how="call"), site="(cfg@fst)(ys)", feat=feat, timeout=60)
        base = dict(base, sigmaB=sig)
        M = aops.rand_wfsa(rng, srn, nS=rng.choice([2, 3]), narcs=4, eps_acyclic=True, acyclic=exact)
        yield event("gcompose", dict(base, M=M, how="cfg@wfsa"), site="cfg@acceptor", feat="acceptor/" + gfeat, timeout=60)
        for xs in fam.strings(sig, 2):
            yield event("gcall", dict(base, xs=list(xs), how="treesum@string"), site="(cfg@xs).treesum()", feat="string/" + gfeat)
        xs = [rng.choice(sig) for _ in range(rng.randint(0, 2))]
        yield event("gcompose", dict(base, xs=xs, how="cfg@string"), site="cfg@string", feat="string/" + gfeat)
        yield event("truncate", {"sr": srn, "G": G, "n": rng.choice([0, 1, 2]), "L": 3, "names": names},
                         site="truncate_length", feat="truncate/" + gfeat)


def selftests(events, rng):
    out = selftest_numeric(events, rng, ops=("gcall",), n=6)
    cands = [e for e in events if "exc" not in e and e["op"] == "gcompose" and e["out"]["rules"]]
    rng.shuffle(cands)
    for e in cands[:6]:
        c = copy.deepcopy(e)
        c["expect"] = "reject"
        r0 = c["out"]["rules"][0]
        c["out"]["V"] = c["out"]["V"] + ["zz"]
        c["out"]["rules"].append({"w": r0["w"], "h": c["out"]["S"], "b": ["zz"]})   # derives an output nothing maps to
        c["sigmaB"] = c["sigmaB"] + ["zz"]
        c["L"] = 1
        out.append(c)
    return out


def run(report, tier, seed):
    standard_run(report, "C09", MODULE, tier, seed, selftests,
                 sample_keys=("op", "sr", "G", "T", "y", "res", "site"),
                 rule=("random grammars x random transducers (epsilon input, deletion, insertion, eps:eps, cycles, several "
                       "initial/final states), both argument orders, acceptors and plain strings, truncate_length: the output "
                       "grammar's weights are judged by TLC against the composition least fixed point of GrammarCompose.tla on "
                       "all outputs up to L, and against the literal sum over inputs where the transducer cannot delete; "
                       "(cfg@fst)(ys) and (cfg@xs).treesum() as values"))


def replay(report, rp):
    return generic_replay(report, rp, aops.event)
