"""C01 - next-token mask is exactly the set of viable continuations."""
import copy

import families as fam
import gops
from check import standard_run, generic_replay
from project import cfg_proj

MODULE = "TraceGrammar"


def generate(rng, tier, shard, nshards):
    event = gops.variant_event(rng)
    for G in fam.tlc_family(shard, nshards):        # (C) the exhaustive family enumerated by TLC, both back-ends
        for alg in ("earley", "cky"):
            for ctx in fam.strings(G["V"], 2):
                yield event("mask", {"sr": "Bool", "G": G, "ctx": list(ctx), "alg": alg}, site=f"BoolCFGLM[{alg}].p_next",
                                 feat="tlc-family")
    # left-corner cycles through the start symbol with re-entry (the predictive filter of the Earley back-end):
    # many grammars, short contexts, three rule orders each
    for gi in range(14 if tier == "quick" else 100):
        g0 = fam.rand_cfg(rng, gops.SR["Bool"], shape="ring")
        for perm in range(3):
            g = fam.permuted(g0, rng) if perm else g0
            G, _ = cfg_proj(g)
            for alg in ("earley", "cky"):
                for ctx in fam.strings(g.V, 2):
                    yield event("mask", {"sr": "Bool", "G": G, "ctx": [str(x) for x in ctx], "alg": alg},
                                     site=f"BoolCFGLM[{alg}].p_next", feat="ring/" + fam.feature_key(g))
    for gi in range(6 if tier == "quick" else 40):
        # two unary cycles joined by a bridge; integer (byte) terminals with a vocabulary larger than what the rules use
        if gi % 2 == 0:
            g = fam.rand_cfg(rng, gops.SR["Bool"], shape="twocycles")
            ft = "twocycles"
        else:
            Vint = tuple(range(1, 40))          # a dense byte-like vocabulary; the rules use only its smallest symbols
            g = fam.rand_cfg(rng, gops.SR["Bool"], shape="any", nN=rng.choice([3, 4, 5]), nrules=rng.choice([4, 6]), V=Vint[:2])
            g.add(gops.us.mk(g.R, 1), g.S, 1, g.S)
            g.add(gops.us.mk(g.R, 1), g.S, 2)
            g.V |= set(Vint)
            ft = "int-terminals-unused-vocabulary"
        G, _ = cfg_proj(g)
        for alg in ("earley", "cky"):
            for ctx in fam.strings(sorted(g.V)[:3], 2):
                yield event("mask", {"sr": "Bool", "G": G, "ctx": gops.seq(ctx), "alg": alg, "names": "str"},
                                 site=f"BoolCFGLM[{alg}].p_next", feat=ft + "/" + fam.feature_key(g))
    n = 14 if tier == "quick" else 140
    L = 3 if tier == "quick" else 4
    for gi in range(n):
        srn = ["Bool", "Rat", "Bool"][gi % 3]
        R = gops.SR[srn]
        g = fam.rand_cfg(rng, R, shape="chord", nN=3) if gi % 5 == 4 else \
            fam.rand_cfg(rng, R, shape="any" if gi % 3 else "leftcycle", nN=rng.choice([2, 3, 3, 4]),
                         nrules=rng.choice([3, 5, 6]) if gi % 3 else rng.choice([1, 2, 3]))
        if gi % 2 == 0:
            g = fam.ensure_language(g, rng)
        feat = fam.feature_key(g)
        names = rng.choice(["str", "int", "tuple"])
        if gi % 4 == 1:
            g = fam.permuted(g, rng)
        G, _ = cfg_proj(g)
        yield event("mapbool", {"sr": srn, "G": G, "L": 3, "names": names}, site="map_values(Boolean)", feat=feat)
        ctxs = [[str(x) for x in c] for c in fam.strings(g.V, L)]
        ctxs += [[gops.EOS_NAME], [sorted(g.V)[0], gops.EOS_NAME], [gops.EOS_NAME, sorted(g.V)[0]]]
        for alg in ("earley", "cky"):
            for ctx in ctxs:
                args = {"sr": srn, "G": G, "ctx": ctx, "alg": alg, "names": names}
                if srn == "Rat" and gi % 2 == 1:
                    args["tiny"] = True          # real weights so small that their products underflow
                f2 = feat
                if rng.random() < 0.3:       # earlier queries on the same LM object, incl. dead extensions of ctx
                    args["warm"] = [ctx + [t] for t in sorted(g.V)][: rng.randint(1, 2)] + [rng.choice(ctxs)]
                    f2 = feat + "+history"
                yield event("mask", args, site=f"BoolCFGLM[{alg}].p_next", feat=f2)


def selftests(events, rng):
    out = []
    cands = [e for e in events if "exc" not in e and e["op"] == "mask"]
    from tfm_common import visible_string
    for e in [e for e in events if "exc" not in e and e["op"] == "mapbool" and visible_string(e["in"], e["sigma"], e["L"])][:3]:
        c = copy.deepcopy(e)
        c["expect"] = "reject"
        c["out"]["rules"] = []
        out.append(c)
    rng.shuffle(cands)
    for e in cands[:12]:
        c = copy.deepcopy(e)
        c["expect"] = "reject"
        if c["keys"]:
            c["keys"] = c["keys"][1:]
        else:
            c["keys"] = [c["G"]["V"][0]] if c["eos"] in c["ctx"] else [c["eos"], c["G"]["V"][0], c["G"]["V"][-1]]
        out.append(c)
    return out


def run(report, tier, seed):
    from common import semantic_core
    famfile = semantic_core(report, ["PrefixRecurrence", "PrefixEmpty"], maxrules=2, sr="Bool")
    standard_run(report, "C01", MODULE, tier, seed, selftests, extra_env={"VERIF_FAMILY": famfile},
                 rule=("random grammars given in Boolean and in Float (x>0 coercion) with nullary rules, unary chains and "
                       "cycles, left/right recursion; every context up to L over V (viable or not) and contexts containing "
                       "end-of-sequence; both back-ends; TLC computes {t : PrefixWeight(ctx.t) # 0} and eos iff "
                       "Weight(ctx) # 0; non-trivial = grammar has a named structural feature"))


def replay(report, rp):
    return generic_replay(report, rp, gops.event)
