"""C11 - automaton string weight is the sum over accepting paths."""
import copy

import aops
import families as fam
from check import standard_run, generic_replay, selftest_numeric

MODULE = "TraceAutomata"
FAMS = [("Sat3", {}), ("Sat3", {}), ("Bool", {}), ("RatU", {"eps_acyclic": True}), ("Rat", {"eps_acyclic": True}),
        ("Sat2", {}), ("MaxTimes", {"acyclic": True}), ("BM2", {})]


def generate(rng, tier, shard, nshards):
    event = aops.variant_event(rng, skip=())
    for M in aops.tlc_automata(shard, nshards):           # (C) the exhaustive family enumerated by TLC
        for s in ([], ["a"], ["a", "a"]):
            yield event("wcall", {"sr": "Sat3", "M": M, "s": s}, site="WFSA.__call__", feat="tlc-family")
        yield event("wop", {"sr": "Sat3", "A": M, "fn": "epsremove", "sigma": ["a"], "L": 3}, site="epsremove", feat="tlc-family")
        yield event("wtotal", {"sr": "Sat3", "M": M}, site="total_weight", feat="tlc-family")
    n = 40 if tier == "quick" else 400
    L = 3 if tier == "quick" else 4
    for i in range(n):
        srn, kw = FAMS[i % len(FAMS)]
        M = aops.rand_wfsa(rng, srn, nS=rng.choice([2, 3, 4]), narcs=rng.choice([3, 5, 7]), **kw)
        feat = aops.afeat(M)
        style = rng.choice(aops.STATE_STYLES)
        base = {"sr": srn, "M": M, "style": style}
        acyc_total = srn in ("Sat3", "Sat2", "Bool", "BM2") or kw.get("acyclic")
        if i % 2 == 1:       # a history of earlier queries on the same automaton object
            base["pre"] = [rng.choice([x for x in aops.WFSA_PRE if acyc_total or x not in ("total_weight", "forward", "backward")])
                           for _ in range(rng.randint(1, 3))]
            feat = feat + "+history"
        for s in fam.strings(("a", "b"), L):
            yield event("wcall", dict(base, s=list(s)), site="WFSA.__call__", feat=feat)
        yield event("wop", {"sr": srn, "A": M, "fn": "epsremove", "sigma": ["a", "b"], "L": L, "style": style, "pre": base.get("pre")},
                         site="epsremove", feat=feat)
        if acyc_total:
            yield event("wtotal", base, site="total_weight", feat=feat)
        elif srn in ("RatU", "Rat"):
            M2 = aops.rand_wfsa(rng, srn, nS=3, narcs=5, acyclic=True)
            yield event("wtotal", {"sr": srn, "M": M2, "style": style}, site="total_weight", feat=aops.afeat(M2))


def selftests(events, rng):
    out = selftest_numeric(events, rng, ops=("wcall", "wtotal"))
    cands = [e for e in events if "exc" not in e and e["op"] == "wop" and any(r[1] == "" for r in e["A"]["arcs"])]
    for e in cands[:4]:
        c = copy.deepcopy(e)
        c["expect"] = "reject"
        c["out"] = c["A"]           # the "result" still has its epsilon arcs
        out.append(c)
    return out


def run(report, tier, seed):
    from common import automata_core
    afam = automata_core(report, 2 if tier == "quick" else 4)
    standard_run(report, "C11", MODULE, tier, seed, selftests, extra_env={"VERIF_AFAMILY": afam},
                 sample_keys=("op", "sr", "M", "A", "s", "res", "site"),
                 rule=("random automata (2-4 states, parallel arcs, epsilon arcs and epsilon cycles, several initial/final "
                       "states, dead and unreachable states) over Sat3/Sat2/Bool (epsilon cycles summed exactly), exact "
                       "rationals (epsilon-acyclic) and MaxTimes; m(xs) for all strings up to L, epsremove (same weights, no "
                       "epsilon arc), total_weight; non-trivial = machine has epsilon arcs / cycles / several initial or "
                       "final states"))


def replay(report, rp):
    return generic_replay(report, rp, aops.event)
