"""C17 - automaton-to-grammar and byte-level conversions preserve weights."""
import copy

import aops
import families as fam
import gops
from check import standard_run, generic_replay
from project import cfg_proj

MODULE = "TraceAutomata"
# 1-, 2-, 3-, 4-byte characters; several 3-byte characters share continuation bytes but not the lead byte (and vice versa)
CHARS = ["a", "b", "é", "ü", "€", "\U0001f600", "ñ", "ア", "—", "、", "₭", "\U0001f601"]


def generate(rng, tier, shard, nshards):
    event = aops.variant_event(rng, skip=("tobytes", "gtobytes"))
    for M in aops.tlc_automata(shard, nshards, every=2 if tier == "quick" else 1):     # (C) the TLC-enumerated family
        for rec in ("left", "right"):
            yield event("tocfg", {"sr": "Sat3", "M": M, "recursion": rec, "sigma": ["a"], "L": 3}, site=f"to_cfg[{rec}]",
                             feat="tlc-family")
    n = 30 if tier == "quick" else 300
    for i in range(n):
        srn = ["Sat3", "Bool", "RatU", "Sat3", "Rat"][i % 5]
        kw = {"eps_acyclic": True} if srn in ("RatU", "Rat") else {}
        M = aops.rand_wfsa(rng, srn, nS=rng.choice([2, 3, 4]), narcs=rng.choice([3, 5]), **kw)
        feat = aops.afeat(M)
        style = rng.choice(aops.STATE_STYLES)
        for rec in ("left", "right"):
            yield event("tocfg", {"sr": srn, "M": M, "recursion": rec, "sigma": ["a", "b"], "L": 3, "style": style},
                             site=f"to_cfg[{rec}]", feat=feat)
        # automata built by from_string / from_strings: their STATE NAMES are prefixes of the strings, i.e. may
        # coincide with alphabet symbols
        if i % 3 == 0:
            Xs = [[rng.choice(["a", "b"]) for _ in range(rng.randint(1, 3))] for _ in range(rng.randint(1, 3))]
            for rec in ("left", "right"):
                yield event("tocfg_strings", {"sr": srn, "Xs": Xs, "recursion": rec, "sigma": ["a", "b"], "L": 3,
                                                   "as_str": rng.random() < 0.5},
                                 site=f"from_strings.to_cfg[{rec}]", feat="state-names-are-symbols")
        # byte conversion: alphabets mixing 1-4 byte characters and multi-character symbols
        syms = rng.sample(CHARS, rng.choice([2, 3])) + ([rng.choice(["ab", "éa", "aü"])] if i % 4 == 0 else [])
        if i % 5 == 2:
            syms[0] = "\x00"          # U+0000 encodes as the byte 0, a falsy label
        names = [gops.tname(x) for x in syms]
        Mb = aops.rand_wfsa(rng, srn, nS=rng.choice([2, 3]), narcs=rng.choice([2, 3, 4]), labels=tuple(names) + ("",), **kw)
        yield event("tobytes", {"sr": srn, "M": Mb, "L": 3 if tier == "quick" else 4, "style": style},
                         site="WFSA.to_bytes", feat="multibyte" if any(len(s.encode()) > 1 for s in syms) else "ascii")
        R = gops.SR[srn]
        shape = "acyclic" if srn in ("RatU", "Rat") else "any"
        g = fam.rand_cfg(rng, R, shape=shape, nN=2, nrules=3, V=tuple(syms[:2]), maxbody=2)
        G, _ = cfg_proj(g)
        yield event("gtobytes", {"sr": srn, "G": G, "L": 3 if tier == "quick" else 4}, site="CFG.to_bytes",
                         feat="multibyte" if any(len(s.encode()) > 1 for s in syms[:2]) else "ascii")


def f_tocfg_strings(a):
    from genlm.grammar.wfsa.base import WFSA
    R = gops.SR[a["sr"]]
    Xs = [gops.ustr(x) for x in a["Xs"]]
    if a.get("as_str") and all(isinstance(c, str) for x in Xs for c in x):     # (token ids have no string form)
        Xs = ["".join(x) for x in Xs]
    m = WFSA.from_strings(Xs, R) if len(Xs) > 1 else WFSA.from_string(Xs[0], R)
    g = m.to_cfg(recursion=a["recursion"])
    G, _ = cfg_proj(g)
    return {"op": "tocfg", "sr": gops.srmodel(a["sr"]), "M": aops.wfsa_proj(m), "G": G, "sigma": a["sigma"], "L": a["L"]}


aops.FUNCS["tocfg_strings"] = f_tocfg_strings


def selftests(events, rng):
    out = []
    cands = [e for e in events if "exc" not in e and e["op"] == "tocfg" and e["G"]["rules"]]
    rng.shuffle(cands)
    for e in cands[:6]:
        c = copy.deepcopy(e)
        c["expect"] = "reject"
        n = c["M"]["n"]
        w = c["G"]["rules"][0]["w"]
        c["M"]["n"] = n + 2                       # the automaton accepts "zz" but the grammar does not
        c["M"]["I"].append([n, w])
        c["M"]["arcs"].append([n, "zz", n + 1, w])
        c["M"]["F"].append([n + 1, w])
        c["sigma"] = c["sigma"] + ["zz"]
        out.append(c)
    # the automaton visibly accepts the empty string (an initial state that is final): an empty result is wrong
    cands = [e for e in events if "exc" not in e and e["op"] == "tobytes"
             and {q for q, _ in e["M"]["I"]} & {q for q, _ in e["M"]["F"]}]
    for e in cands[:6]:
        c = copy.deepcopy(e)
        c["expect"] = "reject"
        c["out"] = {"n": 1, "I": [], "F": [], "arcs": []}
        out.append(c)
    return out


def run(report, tier, seed):
    from common import automata_core
    afam = automata_core(report, 2)
    standard_run(report, "C17", MODULE, tier, seed, selftests, extra_env={"VERIF_AFAMILY": afam},
                 sample_keys=("op", "sr", "M", "G", "cps", "bytes", "site"), trivial=("plain", "ascii"),
                 rule=("to_cfg (left/right) on random automata and on automata built by from_string/from_strings (state names "
                       "are symbols); WFSA.to_bytes and CFG.to_bytes on alphabets mixing 1-4 byte characters and "
                       "multi-character symbols: every byte string up to L over the occurring bytes gets the total weight of "
                       "the symbol strings whose UTF-8 encoding it is (UTF-8 defined arithmetically in TraceAutomata.tla), "
                       "zero for truncated encodings"))


def replay(report, rp):
    return generic_replay(report, rp, aops.event)
