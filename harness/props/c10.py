"""C10 - transducer composition counts every matching path pair exactly once."""
import copy

import aops
import families as fam
from check import standard_run, generic_replay, selftest_numeric

MODULE = "TraceAutomata"


def generate(rng, tier, shard, nshards):
    event = aops.variant_event(rng, skip=())
    n = 24 if tier == "quick" else 240
    L = 2
    sig = ["a", "b"]
    for i in range(n):
        srn = ["Sat3", "Sat3", "RatU", "Bool", "Sat2", "Rat"][i % 6]
        acyc = srn in ("RatU", "Rat") or i % 5 == 0
        nA, nB = rng.choice([(2, 3), (3, 2), (2, 2), (3, 3), (1, 3)])
        fam_ix = (i // 2) % 3          # independent of the semiring rotation
        if fam_ix == 1:
            # epsilon-heavy on the matching tape: runs of epsilon-output moves in A against runs of epsilon-input moves in B
            A = aops.rand_fst(rng, srn, nS=nA, narcs=rng.choice([4, 6]), outs=("", "", "a", "b"), acyclic=acyc)
            B = aops.rand_fst(rng, srn, nS=nB, narcs=rng.choice([4, 6]), ins=("", "", "a", "b"), acyclic=acyc)
        elif fam_ix == 2:
            # several intermediate strings y link the same pair of paths (sum over y, not "last y"): acyclic 2-3 state
            # machines over {a,b} with parallel arcs that differ only in the intermediate symbol.  Acyclic, so that
            # exact rationals apply (a saturating semiring would hide a lost term on dense machines).
            nA, nB = rng.choice([(2, 2), (2, 3), (3, 2)])
            A = aops.rand_fst(rng, srn, nS=nA, narcs=rng.choice([2, 4]), ins=("a", "b"), outs=("a", "b"), acyclic=True)
            B = aops.rand_fst(rng, srn, nS=nB, narcs=rng.choice([2, 4]), ins=("a", "b"), outs=("a", "b"), acyclic=True)
            x, z = rng.choice(["a", "b"]), rng.choice(["a", "b"])
            w1, w2 = A["I"][0][1], B["I"][0][1]
            A["arcs"] += [[0, x, "a", nA - 1, w1], [0, x, "b", nA - 1, w2 if srn not in ("Bool",) else 1]]
            B["arcs"] += [[0, "a", z, nB - 1, w2], [0, "b", z, nB - 1, w1 if srn not in ("Bool",) else 1]]
            A["F"].append([nA - 1, w1])
            B["F"].append([nB - 1, w2])
            acyc = True
        else:
            A = aops.rand_fst(rng, srn, nS=nA, narcs=rng.choice([2, 4, 5]), acyclic=acyc)
            B = aops.rand_fst(rng, srn, nS=nB, narcs=rng.choice([2, 4, 5]), acyclic=acyc)
        feat = "+".join(x for x in ["epsout" if any(r[2] == "" for r in A["arcs"]) else "",
                                    "epsin" if any(r[1] == "" for r in B["arcs"]) else "",
                                    "epseps" if any(r[1] == r[2] == "" for r in A["arcs"] + B["arcs"]) else "",
                                    "cyclic" if not acyc else ""] if x) or "plain"
        st, st2 = rng.choice(aops.STATE_STYLES), rng.choice(aops.STATE_STYLES)
        if i % 4 == 3:              # transducers entered through set_arc (the alphabets are maintained there, too)
            A["ctor"] = "set"
            B["ctor"] = "set"
            feat = feat + "+built-with-set_arc"
        yield event("tcompose", {"sr": srn, "A": A, "B": B, "sigmaA": sig, "sigmaM": sig, "sigmaB": sig, "L": L,
                                      "style": st, "style2": st2}, site="FST.__matmul__", feat=feat, timeout=60)
        T = A
        for x in fam.strings(sig, 2):
            for y in fam.strings(sig, 2):
                if rng.random() < 0.4:
                    yield event("tcall", {"sr": srn, "T": T, "x": list(x), "y": list(y), "style": st}, site="FST.__call__", feat=feat)
        base = {"sr": srn, "T": T, "sigmaA": sig, "sigmaB": sig, "L": L, "style": st}
        for fn in ("transpose", "project0", "project1", "coarsen"):
            yield event("tsame", dict(base, fn=fn), site=f"FST.{fn}", feat=feat)
        yield event("tsame", dict(base, fn="prune", keepA=rng.choice([["a", ""], ["a", "b", ""], ["b"]]),
                                       keepB=rng.choice([["a", "b", ""], ["b", ""], ["a"]])), site="FST.prune_to_alphabet", feat=feat)
        fix = [rng.choice(sig) for _ in range(rng.randint(0, 2))]
        yield event("tsame", dict(base, fn="xsec_in", fix=fix), site="FST(x,None)", feat=feat)
        yield event("tsame", dict(base, fn="xsec_out", fix=fix), site="FST(None,y)", feat=feat)
        M = aops.rand_wfsa(rng, srn, nS=2, narcs=3, eps_acyclic=True)
        yield event("tsame", {"sr": srn, "fn": "diag", "M": M, "sigmaA": sig, "sigmaB": sig, "L": L}, site="FST.diag", feat="ctor")
        xs = [rng.choice(sig) for _ in range(rng.randint(0, 2))]
        yield event("tsame", {"sr": srn, "fn": "from_string", "xs": xs, "sigmaA": sig, "sigmaB": sig, "L": L}, site="FST.from_string", feat="ctor")
        pairs = [[[rng.choice(sig) for _ in range(rng.randint(0, 2))], [rng.choice(sig) for _ in range(rng.randint(0, 2))]]
                 for _ in range(rng.randint(1, 3))]
        yield event("tsame", {"sr": srn, "fn": "from_pairs", "pairs": pairs, "sigmaA": sig, "sigmaB": sig, "L": L}, site="FST.from_pairs", feat="ctor")


def selftests(events, rng):
    out = selftest_numeric(events, rng, ops=("tcall",), n=6)
    cands = [e for e in events if "exc" not in e and e["op"] == "tcompose"]
    rng.shuffle(cands)
    for e in cands[:6]:
        c = copy.deepcopy(e)
        c["expect"] = "reject"
        n = c["out"]["n"]
        w = c["A"]["I"][0][1]
        c["out"]["n"] = n + 2                 # the result relates "zz" to "zz": no pair of paths explains it
        c["out"]["I"].append([n, w])
        c["out"]["arcs"].append([n, "zz", "zz", n + 1, w])
        c["out"]["F"].append([n + 1, w])
        c["sigmaA"] = c["sigmaA"] + ["zz"]
        c["sigmaB"] = c["sigmaB"] + ["zz"]
        c["L"] = 1
        out.append(c)
    return out


def run(report, tier, seed):
    standard_run(report, "C10", MODULE, tier, seed, selftests,
                 sample_keys=("op", "fn", "sr", "A", "B", "T", "x", "y", "res", "site"),
                 rule=("random transducer pairs (1-3 states, epsilon on either tape, eps:eps arcs, cycles, either size order so "
                       "both association branches of __matmul__ run) over Sat3/Sat2/Bool and exact rationals: the composed "
                       "machine's relation equals the filter-product least fixed point on all string pairs up to L, and the "
                       "definitional sum over intermediate strings where one side is acyclic; f(x,y), cross-sections, T, "
                       "project, diag, from_string, from_pairs against TWeight; non-trivial = epsilon on the matching tape, "
                       "eps:eps arcs or cycles"))


def replay(report, rp):
    return generic_replay(report, rp, aops.event)
