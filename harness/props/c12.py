"""C12 - rational operations implement the algebra of weighted languages."""
import copy

import aops
from check import standard_run, generic_replay

MODULE = "TraceAutomata"
FAMS = [("Sat3", {}), ("Bool", {}), ("RatU", {"eps_acyclic": True, "eps_loop": 0.3}), ("Sat2", {}),
        ("Rat", {"eps_acyclic": True, "eps_loop": 0.3})]


def generate(rng, tier, shard, nshards):
    event = aops.variant_event(rng, skip=())
    for M in aops.tlc_automata(shard, nshards, every=2 if tier == "quick" else 1):     # (C) the TLC-enumerated family
        for fn in ("reverse", "star", "kleene_plus"):
            yield event("wop", {"sr": "Sat3", "A": M, "sigma": ["a"], "L": 3, "fn": fn}, site=f"WFSA.{fn}", feat="tlc-family")
    n = 24 if tier == "quick" else 240
    L = 3 if tier == "quick" else 4
    sig = ["a", "b"]
    for i in range(n):
        srn, kw = FAMS[i % len(FAMS)]
        cls = "field" if srn == "Rat" and i % 2 == 0 else "base"
        A = aops.rand_wfsa(rng, srn, nS=rng.choice([2, 3]), narcs=rng.choice([2, 4, 5]), **kw)
        B = aops.rand_wfsa(rng, srn, nS=rng.choice([1, 2, 3]), narcs=rng.choice([2, 4]), **kw)
        feat = aops.afeat(A)
        style, style2 = rng.choice(aops.STATE_STYLES), rng.choice(aops.STATE_STYLES)
        base = {"sr": srn, "A": A, "sigma": sig, "L": L, "style": style, "cls": cls}
        if i % 3 == 1:
            # the operand object was used before, e.g. its closure was built (the expression A + A^+): it is still A
            base["pre"] = [rng.choice(["kleene_plus", "star", "add_self", "mul_self", "reverse", "epsremove"])
                           for _ in range(rng.randint(1, 2))]
            feat = feat + "+operand-used-before"
        for fn in ("add", "mul"):
            yield event("wop", dict(base, fn=fn, B=B, style2=style2), site=f"WFSA.{fn}", feat=feat)
        for fn in ("reverse", "renumber", "rename", "spawn_all"):
            yield event("wop", dict(base, fn=fn), site=f"WFSA.{fn}", feat=feat)
        if cls == "field":
            yield event("wop", dict(base, fn="multiplicity", m=rng.choice([[1, 2], [2, 1], [3, 4], [0, 1]])),
                        site="field.WFSA.multiplicity", feat=feat)
            yield event("wop", dict(base, fn="threshold", t=rng.choice([[1, 2], [3, 4], [1, 4], [1, 1]])),
                        site="field.WFSA.threshold", feat=feat)
        if srn in ("Sat3", "Sat2", "Bool"):
            for fn in ("star", "kleene_plus"):
                yield event("wop", dict(base, fn=fn, L=min(L, 3)), site=f"WFSA.{fn}", feat=feat)
        else:
            # rationals: star needs A(eps) < 1; use operands whose initial state is not final and eps-free
            A2 = aops.rand_wfsa(rng, srn, nS=3, narcs=4, labels=("a", "b"), acyclic=True)
            A2["F"] = [[q, w] for q, w in A2["F"] if q != 0] or [[2, A2["I"][0][1]]]
            A2["I"] = [x for x in A2["I"] if x[0] == 0][:1]
            if i % 2 == 0:
                # the operand accepts the empty string with a weight in (0, 1): the star sums a geometric series
                A2["I"] = [[0, [1, 2]]]
                A2["F"].append([0, rng.choice([[1, 2], [1, 4], [1, 1]])])
            for fn in ("star", "kleene_plus"):
                yield event("wop", {"sr": srn, "A": A2, "sigma": sig, "L": 3, "fn": fn, "style": style, "cls": cls},
                                 site=f"WFSA.{fn}", feat=aops.afeat(A2))
        R = aops.SR[srn]
        w = aops.enc_w(R, aops.us.mk(R, rng.choice([1, 2] if srn.startswith("Sat") else [1])))
        yield event("wlang", {"sr": srn, "ctor": "lift", "x": rng.choice(["a", "b", ""]),
                              "w": w if rng.random() < 0.8 else aops.enc_w(R, R.zero), "sigma": sig, "L": 2, "cls": cls},
                         site="WFSA.lift", feat="ctor")
        xs = [rng.choice(sig) for _ in range(rng.randint(0, 3))]
        z = aops.enc_w(R, R.zero)          # an explicit zero weight is a weight, not "no weight given"
        yield event("wlang", {"sr": srn, "ctor": "from_string", "xs": xs, "w": rng.choice([None, w, w, z]), "sigma": sig, "L": 3, "cls": cls},
                         site="WFSA.from_string", feat="ctor")
        Xs = [[rng.choice(sig) for _ in range(rng.randint(0, 3))] for _ in range(rng.randint(0, 4))]
        yield event("wlang", {"sr": srn, "ctor": "from_strings", "Xs": Xs, "sigma": sig, "L": 3, "cls": cls},
                         site="WFSA.from_strings", feat="ctor")
        for k in ("zero", "one"):
            yield event("wlang", {"sr": srn, "ctor": k, "M": A, "sigma": sig, "L": 2}, site=f"WFSA.{k}", feat="ctor")
        # plus / star of an automaton that already has epsilon links from final to initial states (a result of plus)
        A3 = aops.rand_wfsa(rng, srn, nS=rng.choice([2, 3]), narcs=3, labels=("a", "b"), acyclic=True)
        A3["I"] = [[0, A3["I"][0][1]]]
        A3["F"] = [[A3["n"] - 1, A3["I"][0][1]]]
        A3["arcs"].append([0, "a", A3["n"] - 1, [1, 2] if srn in ("RatU", "Rat") else 1])
        if srn in ("RatU", "Rat"):
            for r in A3["arcs"] + A3["I"] + A3["F"]:
                r[-1] = [1, 2]
        e1 = event("wop", {"sr": srn, "A": A3, "sigma": sig, "L": 3, "fn": "kleene_plus", "style": style, "cls": cls},
                        site="WFSA.kleene_plus", feat="plus")
        yield e1
        if "exc" not in e1 and not e1.get("skip"):
            for fn in ("kleene_plus", "star"):
                e2 = event("wop", {"sr": srn, "A": e1["out"], "sigma": sig, "L": 3, "fn": fn, "style": style2, "cls": cls},
                           site=f"WFSA.{fn}(plus)", feat="plus-of-plus")
                e2["derived"] = True
                yield e2
        # nested expressions: the (projected) result of one operation is the operand of the next, each step judged
        cur = A
        for depth in range(2):
            fn = rng.choice(["kleene_plus", "star", "add", "mul", "reverse"] if srn in ("Sat3", "Sat2", "Bool")
                            else ["add", "mul", "reverse"])
            args = {"sr": srn, "A": cur, "sigma": sig, "L": 3 if fn in ("kleene_plus", "star") else L, "fn": fn,
                    "style": rng.choice(aops.STATE_STYLES), "cls": cls}
            if fn in ("add", "mul"):
                args["B"], args["style2"] = B, style2
            e = event("wop", args, site=f"WFSA.nested/{fn}", feat="nested+" + feat)
            if depth > 0:
                e["derived"] = True
            yield e
            if "exc" in e or e.get("skip") or e["out"]["n"] > 6:
                break
            cur = e["out"]


def selftests(events, rng):
    out = []
    cands = [e for e in events if "exc" not in e and e["op"] == "wop" and e["fn"] in ("add", "mul", "reverse", "same")]
    rng.shuffle(cands)
    for e in cands[:10]:
        c = copy.deepcopy(e)
        c["expect"] = "reject"
        # the result accepts the string zzz... with a weight the specification cannot explain: use the first
        # symbol three times on a fresh accepting path of length L
        n = c["out"]["n"]
        t = c["sigma"][0]
        w = c["out"]["I"][0][1] if c["out"]["I"] else (c["A"]["I"][0][1])
        c["out"]["n"] = n + 4
        c["out"]["I"].append([n, w])
        for k in range(3):
            c["out"]["arcs"].append([n + k, "zz", n + k + 1, w])
        c["out"]["F"].append([n + 3, w])
        c["sigma"] = c["sigma"] + ["zz"]
        out.append(c)
    cands = [e for e in events if "exc" not in e and e["op"] == "wlang" and e["entries"]]
    for e in cands[:4]:
        c = copy.deepcopy(e)
        c["expect"] = "reject"
        c["entries"] = c["entries"][1:]
        out.append(c)
    return out


def run(report, tier, seed):
    from common import automata_core
    afam = automata_core(report, 2)
    standard_run(report, "C12", MODULE, tier, seed, selftests, extra_env={"VERIF_AFAMILY": afam},
                 sample_keys=("op", "fn", "sr", "A", "B", "site"), trivial=("plain",),
                 rule=("random operand pairs (epsilon arcs, several initial/final states, initial state final) over "
                       "Sat3/Sat2/Bool and exact rationals, base.WFSA and field_wfsa.WFSA: + . * ^+ reverse rename renumber "
                       "spawn judged on all strings up to L against the language operations of Automata.tla (split sums, "
                       "factorisation sums); constructors lift/from_string/from_strings/zero/one against the exact listed "
                       "language"))


def replay(report, rp):
    return generic_replay(report, rp, aops.event)
