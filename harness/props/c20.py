"""C20 - local normalisation yields the proportional proper grammar; EOS wrapping."""
import copy

import families as fam
import gops
from check import standard_run, generic_replay
from project import cfg_proj

MODULE = "TraceGrammar"


def generate(rng, tier, shard, nshards):
    event = gops.variant_event(rng)
    n = 60 if tier == "quick" else 600
    for gi in range(n):
        srn, shape = [("Rat", "acyclic"), ("Sat3", "any"), ("Rat", "acyclic"), ("Bool", "any"), ("Rat", "nocycle")][gi % 5]
        R = gops.SR[srn]
        g = fam.rand_cfg(rng, R, shape=shape, nN=rng.choice([2, 3, 4]), nrules=rng.choice([3, 5, 7]))
        if srn == "Rat" and gi % 10 != 0:
            g.add(rng.choice(fam.weights_for(R)), g.S, rng.choice(sorted(g.V)))   # positive total weight
        feat = fam.feature_key(g)
        names = rng.choice(["str", "int", "tuple"])
        G, _ = cfg_proj(g)
        base = {"sr": srn, "G": G, "names": names}
        finite_total = srn in ("Sat3", "Bool") or shape == "acyclic"
        if not finite_total:
            pass
        elif gi % 3 == 1 and len(G["rules"]) >= 2:
            base["late"] = rng.randint(1, len(G["rules"]) - 1)
            feat = feat + "+rules-added-after-evaluation"
        elif gi % 3 == 2:
            base["pre"] = [rng.choice(["agenda", "treesum", "naive", "agenda_maxiter", "treesum_tol", "agenda_tol"]) for _ in range(rng.randint(1, 2))]
            feat = feat + "+history"
        yield event("addeos", dict(base, L=3), site="add_EOS", feat=feat)
        if gi % 2 == 0:      # a caller-chosen end-of-sequence symbol (a character, a word, a token id)
            yield event("addeos", dict(base, L=3, eos=rng.choice(["u0024", "end", "<7>"])), site="add_EOS(eos=...)",
                             feat=feat + "+custom-eos")
        if gi % 4 == 1:      # wrapped twice (a sentence marker inside a document marker)
            yield event("addeos", dict(base, L=3, eos="u0024", eos2=rng.choice(["end", "<7>"])), site="add_EOS(add_EOS(g, $), #)",
                        feat=feat + "+wrapped-twice")
        if srn == "Rat" and shape == "acyclic":
            yield event("normalize", dict(base, L=3), site="locally_normalize", feat=feat)
        if gi % 3 == 0:
            yield gops.event("normalizerl", {"G": rl_cyclic(rng)}, site="locally_normalize[recursive, proper]",
                             feat="proper-right-linear-with-nested-cycles", timeout=120)


def rl_cyclic(rng):
    """A proper right-linear grammar with 3-5 states, several arcs per state to random states (nested cycles, chords,
    parallel tokens) and a stop rule of weight >= 1/4 everywhere: every total weight is exactly one."""
    n = rng.choice([3, 4, 5])
    names = [f"#{k}" for k in range(n)]
    rules = []
    for X in names:
        k = rng.choice([1, 2, 3])
        ws = [rng.choice([[1, 4], [1, 8], [1, 8]]) for _ in range(k)]
        rest = 8 - sum(8 // w[1] for w in ws)
        for w in ws:
            rules.append({"w": w, "h": X, "b": [rng.choice(["a", "b"]), rng.choice(names)]})
        rules.append({"w": [rest // (2 if rest % 2 == 0 and rest < 8 else 1) if False else rest, 8], "h": X, "b": []})
    from fractions import Fraction
    for r in rules:
        q = Fraction(*r["w"])
        r["w"] = [q.numerator, q.denominator]
    rng.shuffle(rules)
    return {"S": "#0", "V": ["a", "b"], "rules": rules}


def chart_events(rng, tier):
    import lops
    out = []
    keys = ["S", "A", "B", "a", "b"]
    for i in range(40 if tier == "quick" else 400):
        srn = ["Rat", "Sat3", "Bool", "RatU"][i % 4]
        ws = {"Rat": [[1, 2], [1, 4], [3, 4], [2, 1], [0, 1]], "RatU": [[1, 2], [1, 3], [2, 1], [0, 1]], "Sat3": [0, 1, 2, 3], "Bool": [0, 1]}[srn]
        mk = lambda: [[k, rng.choice(ws)] for k in rng.sample(keys, rng.randint(0, 5))]
        a, b = mk(), mk()
        base = {"sr": srn, "a": a}
        out.append(lops.event("chart", dict(base, fn="product", ks=[rng.choice(keys) for _ in range(rng.randint(0, 4))]), site="Chart.product", feat="chart"))
        out.append(lops.event("chart", dict(base, fn="add", b=b), site="Chart.__add__", feat="chart"))
        out.append(lops.event("chart", dict(base, fn="mul", b=b), site="Chart.__mul__", feat="chart"))
        out.append(lops.event("chart", dict(base, fn="trim"), site="Chart.trim", feat="chart"))
        out.append(lops.event("chart", dict(base, fn="filter", keep=rng.sample(keys, 2)), site="Chart.filter", feat="chart"))
        out.append(lops.event("chart", dict(base, fn="project", map=[[k, rng.choice(["x", "y"])] for k in keys]), site="Chart.project", feat="chart"))
        if srn == "Rat":
            out.append(lops.event("chart", dict(base, fn="sum"), site="Chart.sum", feat="chart"))
            out.append(lops.event("chart", dict(base, fn="normalize"), site="Chart.normalize", feat="chart"))
    return out


def selftests(events, rng):
    out = []
    cands = [e for e in events if "exc" not in e and e["op"] in ("normalize", "addeos") and e["out"]["rules"]
             and any(r["h"] == e["in"]["S"] and len(r["b"]) == 1 and r["b"][0] in e["sigma"] for r in e["in"]["rules"])]
    rng.shuffle(cands)
    for e in cands[:10]:
        c = copy.deepcopy(e)
        c["expect"] = "reject"
        r0 = c["out"]["rules"][0]
        # a spurious derivation of the bare string "t": breaks 'zero unless one trailing eos' / the per-head sums
        c["out"]["rules"].append({"w": r0["w"], "h": c["out"]["S"], "b": [c["sigma"][0]]})
        out.append(c)
    return out


def run(report, tier, seed):
    import random
    from check import judge
    ce = chart_events(random.Random(seed + 21), tier)
    for e in ce:
        report.case(e, trivial=())
    judge(report, "TraceLinear", ce)           # Chart algebra (Chart.product is what locally_normalize relies on)
    standard_run(report, "C20", MODULE, tier, seed, selftests,
                 rule=("locally_normalize on exact-rational grammars with finitely many derivations (useless and "
                       "zero-total nonterminals included): per-head sums, total weight one, Weight'(x) * Z = Weight(x) "
                       "for all x up to L; add_EOS over all semirings: Weight(x eos) = Weight(x), zero unless exactly "
                       "one trailing eos; non-trivial = grammar has a named structural feature"))


def replay(report, rp):
    return generic_replay(report, rp, gops.event)
