"""C02 - every parser returns the derivation-sum weight of a string."""
import copy

import families as fam
import gops
import usersemirings as us
from check import judge, run_generators
from project import cfg_proj

MODULE = "TraceGrammar"

FAMILIES = [
    # (semiring name, rule shape, parsers)
    ("Sat3", "any", ["direct", "earley", "cky", "cnfchart"]),
    ("Bool", "any", ["direct", "earley", "cky"]),
    ("Rat", "nocycle", ["direct", "earley", "rescaled", "cky"]),
    ("Rat", "acyclic", ["direct", "earley", "rescaled", "cky"]),
    ("RatU", "nocycle", ["direct", "earley", "cky"]),
    ("MaxTimes", "nocycle", ["direct", "earley", "cky"]),
    ("Sat2", "any", ["direct", "earley", "cky"]),
    ("Sat3", "leftcycle", ["direct", "earley", "cky"]),
    ("Bool", "leftcycle", ["direct", "earley", "cky"]),
    ("Sat3", "ring", ["direct", "earley", "cky"]),
    # signed real weights (a commutative ring): partial sums that are exactly zero before a later contribution arrives
    ("Rat", "signed", ["direct", "earley", "cky"]),
    ("Log", "nocycle", ["direct", "earley", "cky"]),
    ("Sat3", "chord", ["direct", "earley", "cky"]),        # one unary component with chords, in every labelling      # the shipped log-space semiring, judged as the reals exp(score)
]


def generate(rng, tier, shard, nshards):
    event = gops.variant_event(rng)
    # (C) the exhaustive family enumerated by TLC (every grammar with <= 2 rules over {S,A}/{a}), all strings
    for G in fam.tlc_family(shard, nshards):
        for s in fam.strings(G["V"], 3):
            for p in ("direct", "earley", "cky"):
                yield event("parse", {"sr": "Sat3", "G": G, "s": list(s), "parser": p, "names": "str"},
                                 site=f"parse/{p}", feat="tlc-family")
    n_grammars = 14 if tier == "quick" else 120
    L = 3 if tier == "quick" else 4
    order = list(range(n_grammars)) + [len(FAMILIES) - 1] * (3 if tier == "quick" else 12)    # more of the signed family
    for gi in order:
        srn, shape, parsers = FAMILIES[gi % len(FAMILIES)]
        R = gops.SR[srn]
        if shape == "signed":
            g = fam.signed_cfg(rng, R)
            shape = "acyclic"
        else:
            g = fam.rand_cfg(rng, R, shape=shape, nN=rng.choice([2, 3, 3, 4]), nrules=rng.choice([3, 5, 6]))
        variants = [("str", g)]
        if gi % 3 == 0:
            variants.append((rng.choice(["int", "tuple", "mixed"]), fam.permuted(g, rng)))
        feat = fam.feature_key(g) + ("+signed-weights" if any(r.w < 0 for r in g.rules if srn == "Rat") else "")
        for names, gv in variants:
            G, _ = cfg_proj(gv)
            allstr = [[str(x) for x in s] for s in fam.strings(gv.V, L if len(G["rules"]) <= 5 else 3)]
            for s in allstr:
                for p in parsers:
                    args = {"sr": srn, "G": G, "s": s, "parser": p, "names": names}
                    f2 = feat
                    if rng.random() < 0.25:
                        if p in ("earley", "rescaled", "cky"):     # history on the parser object
                            args["warm"] = [rng.choice(allstr) for _ in range(rng.randint(1, 3))]
                        else:                                       # history on the grammar object
                            args["pre"] = [rng.choice(gops.safe_pre(srn, shape)) for _ in range(rng.randint(1, 2))]
                        f2 = feat + "+history"
                    yield event("parse", args, site=f"parse/{p}", feat=f2)
            if gi % 2 == 0:
                yield event("lang", {"sr": srn, "G": G, "L": rng.choice([1, 2, 2, 3]), "names": names},
                                 site="materialize", feat=feat)


# ---------------------------------------------------------------------------
# schedules of the agenda (DESIGN 4.3): exhaustive tie-breaks on the real code, and TLC-generated
# schedules of Earley.tla forced into the real next_column


def tieprone_rules(rng, R):
    """Grammars with unary chains whose heads also have longer rules (equal-span items of different
    order) - where the pop order among equal-priority items matters."""
    Ns = ["S", "A", "B", "C"][: rng.choice([3, 3, 4])]
    ws = fam.weights_for(R)
    rules = []
    perm = Ns[:]
    rng.shuffle(perm)
    for a, b in zip(perm, perm[1:]):          # an acyclic unary chain in random orientation
        if rng.random() < 0.8:
            rules.append((rng.choice(ws), a, (b,)))
    for _ in range(rng.randint(2, 4)):
        h = rng.choice(Ns)
        body = rng.choice([("b",), (rng.choice(Ns), rng.choice(Ns)), ("b", rng.choice(Ns)), (rng.choice(Ns), "b")])
        rules.append((rng.choice(ws), h, body))
    rules.append((rng.choice(ws), "S", ("b",)))
    rng.shuffle(rules)
    return rules


def schedule_events(rng, tier):
    """Exhaustive tie-break enumeration on the real parsers (stateless search over the choosing heap)."""
    import esched
    out = []
    n = 240 if tier == "quick" else 2400
    for gi in range(n):
        srn, parser = [("Sat3", "earley"), ("Rat", "rescaled"), ("Rat", "earley"), ("Rat", "rescaled")][gi % 4]
        R = gops.SR[srn]
        g = fam.build_cfg(R, tieprone_rules(rng, R), V=("b",))
        G, _ = cfg_proj(g)
        for n_tok in (2, 3) if tier == "quick" else (2, 3, 4):
            s = ["b"] * n_tok
            args = {"sr": srn, "G": G, "s": s, "parser": parser, "names": "str"}

            seen = 0
            # the enumeration itself drives the real code; every explored schedule becomes one event
            stack = [()]
            while stack and seen < (24 if tier == "quick" else 200):
                script = stack.pop()
                e = gops.event("parse", dict(args, script=list(script)), site=f"parse/{parser}[tiebreak]",
                               feat="tiebreak" if script else "default-schedule")
                ar = list(esched.CTRL.arities or [])
                seen += 1
                out.append(e)
                for p in range(len(script), len(ar)):
                    for alt in range(1, ar[p]):
                        stack.append(tuple(script) + (0,) * (p - len(script)) + (alt,))
    return out


def extract_instance(iid, srn, parser, g, G0, s):
    """The live parser object's own preprocessed rules, order map and ORDER_MAX."""
    from project import enc_w, tname
    p = gops._parser(parser, g)
    c = p.cfg
    V = sorted(tname(x) for x in c.V)
    rules = [{"w": enc_w(c.R, r.w), "h": f"#{r.head}", "b": [tname(y) if y in c.V else f"#{y}" for y in r.body]}
             for r in c.rules if len(r.body) > 0]
    nts = {r.head for r in c.rules} | {y for r in c.rules for y in r.body if y not in c.V} | {c.S}
    order = [[f"#{x}", int(p.order[x])] for x in sorted(nts) if x in p.order]
    if len(order) != len(nts):
        raise gops.MachineryError("parser.order does not cover the nonterminals of its grammar")
    return {"id": iid, "sr": gops.srmodel(srn), "G": {"S": f"#{c.S}", "V": V, "rules": rules}, "G0": G0,
            "ord": order, "om": int(p.ORDER_MAX), "s": s}


def tlc_schedules(report, rng, tier):
    """(C) TLC enumerates every schedule of Earley.tla for instances taken from live parser objects;
    each is forced into the real code.  Returns parse events (validated with the other events)."""
    import json
    import re
    from common import run_tlc, fresh, MachineryError
    insts, meta = [], {}
    n = 100 if tier == "quick" else 500
    for gi in range(n):
        srn, parser = [("Sat3", "earley"), ("Rat", "rescaled"), ("Rat", "earley"), ("Rat", "rescaled")][gi % 4]
        R = gops.SR[srn]
        g = fam.build_cfg(R, tieprone_rules(rng, R), V=("b",))
        G0, _ = cfg_proj(g)
        for n_tok in (2, 3):
            iid = len(insts)
            try:
                insts.append(extract_instance(iid, srn, parser, g, G0, ["b"] * n_tok))
            except (AttributeError, KeyError, TypeError) as ex:
                # the parser object no longer exposes order / ORDER_MAX / cfg as the model expects: the model-driven
                # schedules cannot be produced (the tie-break enumeration on the code itself still runs)
                report.extra["tlc_schedules_unavailable"] = f"{type(ex).__name__}: {ex}"[:200]
                return []
            meta[iid] = (srn, parser, G0, ["b"] * n_tok)
    d = fresh("einst")
    f = d / "inst.ndjson"
    f.write_text("".join(json.dumps(i) + "\n" for i in insts))
    cfg = ("CONSTANT InstanceSet <- JsonInstances\nINIT Init\nNEXT Next\nVIEW view\n"
           "CONSTRAINT ReplayReport\nCHECK_DEADLOCK FALSE\n")
    res = run_tlc("ReplayEarley", cfg, env={"INST_FILE": str(f)}, timeout=4000)
    if not res.ok:
        raise MachineryError("ReplayEarley failed:\n" + res.errhead)
    report.add_tlc(res, f"Earley.tla: all tie-break schedules of {len(insts)} live parser instances")
    events, bad = [], 0
    for m in re.finditer(r'"<<\\"(GOOD|BAD)\\", (\d+), \\"(\w+)\\", (.*?)>>"\n', res.out):
        kind, iid, why, rest = m.group(1), int(m.group(2)), m.group(3), m.group(4)
        sched = [(int(a), int(b), int(c)) for a, b, c in re.findall(r'<<(\d+), (\d+), \\"#(\d+)\\">>', rest)]
        srn, parser, G0, s = meta[iid]
        follow = [[j, y] for (_, j, y) in sched]
        e = gops.event("parse", {"sr": srn, "G": G0, "s": s, "parser": parser, "names": "str", "follow": follow},
                       site=f"parse/{parser}[tlc-schedule:{kind.lower()}]", feat=f"tlc-schedule-{kind.lower()}")
        import esched
        e["diverged"] = esched.CTRL.diverged is not None
        bad += kind == "BAD"
        events.append(e)
    report.extra["tlc_schedules_replayed"] = len(events)
    report.extra["tlc_schedules_losing_a_contribution_in_the_model"] = bad
    report.extra["schedule_conformance_divergences"] = sum(1 for e in events if e.pop("diverged"))
    if not events:
        raise MachineryError("no schedule was produced by ReplayEarley")
    return events


def selftests(events, rng):
    """Corrupt one recorded field per sample: the trace specification must reject the line."""
    out = []
    cands = [e for e in events if "exc" not in e and e["op"] == "parse"]
    rng.shuffle(cands)
    for e in cands[:12]:
        c = copy.deepcopy(e)
        c["expect"] = "reject"
        r = c["res"]
        if isinstance(r, int):
            c["res"] = 0 if r else 1
        else:
            c["res"] = [r[0] + 1, r[1]]
        out.append(c)
    cands = [e for e in events if "exc" not in e and e["op"] == "lang" and e["entries"]]
    for e in cands[:4]:
        c = copy.deepcopy(e)
        c["expect"] = "reject"
        c["entries"] = c["entries"][1:]
        out.append(c)
    return out


MC_CFG = """CONSTANTS K = %d
 MAXN = %d
 PLUS1 = TRUE
 WEIGHTS = {%s}
 SRNAME = "Sat3"
 InstanceSet = {}
INIT MCInit
NEXT Next
VIEW view
INVARIANT NoLatePush
INVARIANT ItemsCorrect
INVARIANT ResultCorrect
INVARIANT PoppedFinal
INVARIANT NextTokenIsExtension
CHECK_DEADLOCK FALSE
"""


def model_check(report, tier):
    """(A) Earley.tla: every grammar of the pool scope x every admissible order x every tie-break."""
    from common import run_tlc, MachineryError
    runs = [(2, 3, "1, 2")] if tier == "quick" else [(2, 4, "1, 2"), (3, 3, "1")]
    for K, maxn, ws in runs:
        res = run_tlc("MCEarley", MC_CFG % (K, maxn, ws), timeout=3000)
        if not res.ok or res.left != 0:
            raise MachineryError("MCEarley: design-level check failed (the model, not the code):\n" + res.errhead)
        report.add_tlc(res, f"MCEarley K={K} MAXN={maxn} weights={{{ws}}}: NoLatePush, ItemsCorrect, ResultCorrect, PoppedFinal, NextTokenIsExtension")


def run(report, tier, seed):
    import random
    from check import standard_run
    model_check(report, tier)
    from common import semantic_core
    famfile = semantic_core(report, ["InsideIsTreeSum"], maxrules=2 if tier == "quick" else 3)
    rng0 = random.Random(seed + 17)
    extra = schedule_events(rng0, tier) + tlc_schedules(report, rng0, tier)
    standard_run(report, "C02", MODULE, tier, seed, selftests, extra_events=extra, extra_env={"VERIF_FAMILY": famfile},
                 trivial=("plain", "default-schedule"),
                 rule=("random grammars per semiring/shape (Sat3/Sat2/Bool: any symbol anywhere incl. nullary rules, unary "
                       "cycles, duplicates; Rat/MaxTimes: same-span-acyclic), all strings up to L over V, every parser; "
                       "tie-prone unary-chain grammars under every agenda tie-break; a case is non-trivial when its grammar "
                       "has a named structural feature (nullary, unary cycle, duplicate rule, ...) or the schedule is not "
                       "the default one; distinct = distinct (call, arguments)"))


def replay(report, rp):
    from check import generic_replay
    return generic_replay(report, rp, gops.event)
