"""C03 - prefix weight equals the total weight of all strings with that prefix."""
import copy

import families as fam
import gops
from check import standard_run, generic_replay, selftest_numeric
from project import cfg_proj

MODULE = "TraceGrammar"
FAMILIES = [("Sat3", "any"), ("Sat3", "any"), ("Rat", "acyclic"), ("Bool", "any"), ("Sat2", "any"), ("RatU", "acyclic"),
            ("Log", "acyclic")]


def generate(rng, tier, shard, nshards):
    event = gops.variant_event(rng)
    yield from generate_family(rng, shard, nshards)
    # integer token ids (0 included): a token is never "no token"
    for gi in range(3 if tier == "quick" else 20):
        srn = ["Sat3", "Rat", "Bool"][gi % 3]
        g = fam.rand_cfg(rng, gops.SR[srn], shape="acyclic" if srn == "Rat" else "any", nN=3, nrules=4, V=(0, 1))
        g.add(gops.us.mk(g.R, 1), g.S, 0, 1)
        g.add(gops.us.mk(g.R, 1), g.S, 0)
        G, _ = cfg_proj(g)
        for p in fam.strings(g.V, 2):
            yield event("prefix", {"sr": srn, "G": G, "s": gops.seq(p), "how": "prefix_weight"}, site="prefix_weight",
                             feat="int-tokens")
        yield event("prefixgrammar", {"sr": srn, "G": G, "L": 2}, site="prefix_grammar", feat="int-tokens")
        yield event("derivative", {"sr": srn, "G": G, "pre": gops.seq((0,)), "L": 2}, site="derivative", feat="int-tokens")
    n = 12 if tier == "quick" else 120
    L = 3 if tier == "quick" else 4
    for gi in range(n):
        srn, shape = FAMILIES[gi % len(FAMILIES)]
        R = gops.SR[srn]
        g = fam.rand_cfg(rng, R, shape=shape, nN=rng.choice([2, 3, 3]), nrules=rng.choice([3, 4, 5]))
        if gi % 3 == 0:
            g = fam.ensure_language(g, rng) if shape == "any" else g
        feat = fam.feature_key(g)
        names = rng.choice(["str", "int", "tuple"])
        G, _ = cfg_proj(g)
        base = {"sr": srn, "G": G, "names": names}
        for p in fam.strings(g.V, L):
            ps = [str(x) for x in p]
            yield event("prefix", dict(base, s=ps, how="prefix_weight"), site="prefix_weight", feat=feat)
            if len(p) <= 2:
                yield event("prefix", dict(base, s=ps, how="derivatives"), site="derivatives.treesum", feat=feat)
        yield event("prefixgrammar", dict(base, L=2 if len(G["rules"]) > 4 else 3), site="prefix_grammar", feat=feat)
        for a in sorted(g.V):
            yield event("derivative", dict(base, pre=[a], L=2), site="derivative", feat=feat)
            for y in fam.strings(g.V, 2):
                yield event("derivcall", dict(base, pre=[a], y=[str(x) for x in y]), site="derivative(a)(y)", feat=feat)
        if gi % 2 == 0:
            pre = [rng.choice(sorted(g.V)) for _ in range(2)]
            yield event("derivative", dict(base, pre=pre, L=2), site="derivative.derivative", feat=feat)
        else:
            # repeated derivatives with explicit indices (the same token twice with different indices, too)
            a = rng.choice(sorted(g.V))
            pre = [a, rng.choice([a, a] + sorted(g.V))]
            idx = [rng.choice([0, 1, None]), rng.choice([0, 1, 2])]
            yield event("derivative", dict(base, pre=pre, idx=idx, L=2), site="derivative(a, i).derivative(b, j)",
                             feat=feat + "+indexed")
            for y in fam.strings(g.V, 2):
                yield event("derivcall", dict(base, pre=pre, idx=idx, y=[str(x) for x in y]), site="derivative(a, i)(y)",
                                 feat=feat + "+indexed")


def selftests(events, rng):
    out = selftest_numeric(events, rng, ops=("prefix", "parse"))
    from tfm_common import visible_string
    cands = [e for e in events if "exc" not in e and e["op"] == "prefixgrammar" and visible_string(e["in"], e["sigma"], e["L"])]
    cands += [e for e in events if "exc" not in e and e["op"] == "derivative" and len(e["pre"]) == 1
              and visible_string(e["in"], e["sigma"], e["L"] + 1, first=e["pre"][0])]
    rng.shuffle(cands)
    for e in cands[:8]:
        c = copy.deepcopy(e)
        c["expect"] = "reject"
        c["out"]["rules"] = []          # the output lost a visibly derivable string / prefix
        out.append(c)
    return out


def generate_family(rng, shard, nshards):
    for G in fam.tlc_family(shard, nshards):        # (C) the exhaustive family enumerated by TLC
        for p in fam.strings(G["V"], 3):
            yield gops.event("prefix", {"sr": "Sat3", "G": G, "s": list(p), "how": "prefix_weight"}, site="prefix_weight",
                             feat="tlc-family")
        yield gops.event("prefixgrammar", {"sr": "Sat3", "G": G, "L": 3}, site="prefix_grammar", feat="tlc-family")
        yield gops.event("derivative", {"sr": "Sat3", "G": G, "pre": ["a"], "L": 2}, site="derivative", feat="tlc-family")


def run(report, tier, seed):
    from common import semantic_core
    famfile = semantic_core(report, ["PrefixRecurrence", "PrefixEmpty", "PrefixBounded"], maxrules=2 if tier == "quick" else 3)
    standard_run(report, "C03", MODULE, tier, seed, selftests, extra_env={"VERIF_FAMILY": famfile},
                 rule=("random grammars (Sat3/Sat2/Bool: cyclic, infinitely many completions summed exactly; Rat: finite "
                       "languages), all prefixes up to L: prefix_weight, prefix_grammar (oracle evaluates the code's "
                       "output grammar), derivatives(p)[-1].treesum(), derivative(a) as a grammar and derivative(a)(y); "
                       "non-trivial = grammar has a named structural feature"))


def replay(report, rp):
    return generic_replay(report, rp, gops.event)
