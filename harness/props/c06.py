"""C06 - normal-form transformations preserve the weighted language."""
import gops
import tfm_common as tc
from check import standard_run, generic_replay

generate = tc.generate
RELEVANT = {"language", "raised"}


def run(report, tier, seed):
    standard_run(report, "C06", tc.MODULE, tier, seed, tc.selftests, relevant=RELEVANT,
                 rule=("random + hand-picked grammars (nullable x unary cycles, non-generating start, useless symbols, "
                       "duplicates) per semiring; every single transformation with its options and random pipelines of "
                       "2-3; TLC evaluates Weight(out, s) = Weight(in, s) for all strings up to L on the code's output "
                       "grammar; non-trivial = grammar has a named structural feature"))


def replay(report, rp):
    return generic_replay(report, rp, gops.event, relevant=RELEVANT)
