"""C13 - determinisation, minimisation, pushing and trimming preserve the language."""
import copy

import aops
from check import standard_run, generic_replay

MODULE = "TraceAutomata"


def generate(rng, tier, shard, nshards):
    event = aops.variant_event(rng, skip=())
    for M in aops.tlc_automata(shard, nshards, every=2 if tier == "quick" else 1):     # (C) the TLC-enumerated family
        for fn in ("trim", "trim_vals"):
            yield event("wop", {"sr": "Sat3", "A": M, "sigma": ["a"], "L": 3, "fn": fn}, site=f"WFSA.{fn}", feat="tlc-family")
    n = 30 if tier == "quick" else 300
    L = 3 if tier == "quick" else 4
    sig = ["a", "b"]
    for i in range(n):
        srn = ["RatU", "RatU", "Sat3", "Bool", "Rat"][i % 5]
        style = rng.choice(aops.STATE_STYLES)
        if srn in ("RatU", "Rat"):
            A = aops.rand_wfsa(rng, srn, nS=rng.choice([3, 4]), narcs=rng.choice([4, 6, 8]), acyclic=True,
                               eps_loop=0.3 if i % 2 else 0.0)
            feat = aops.afeat(A)
            base = {"sr": srn, "A": A, "sigma": sig, "L": max(L, A["n"]), "style": style}
            for fn in ("determinize", "min_det", "push", "trim", "trim_vals"):
                yield event("wop", dict(base, fn=fn), site=f"WFSA.{fn}", feat=feat, timeout=10)
            for fn in ("push.trim", "push.trim_vals", "trim.trim", "trim_vals.trim", "epsremove.trim", "reverse.trim"):
                if rng.random() < 0.6:
                    yield event("wop", dict(base, fn=fn), site=f"WFSA.{fn}", feat=feat + "+trim-of-a-result", timeout=10)
            if i % 2 == 0:
                # two prefixes reach the same set of states with different weight ratios, and the states then split their
                # weight differently: the residual weights of the power state matter, not only its support
                W = [[1, 2], [1, 1], [2, 1], [1, 1]]
                w = lambda: rng.choice(W)
                D = {"n": 5, "I": [[0, w()]], "F": [[3, w()], [4, w()]],
                     "arcs": [[0, "a", 1, w()], [0, "a", 2, w()], [0, "b", 1, w()], [0, "b", 2, w()],
                              [1, "a", 3, w()], [2, "a", 3, w()], [1, "b", 4, w()], [2, "b", 3, w()], [2, "a", 4, w()]]}
                if rng.random() < 0.5:
                    D["I"].append([rng.choice([1, 2]), w()])
                for fn in ("determinize", "min_det", "push"):
                    yield event("wop", {"sr": srn, "A": D, "sigma": sig, "L": 3, "fn": fn, "style": style},
                                     site=f"WFSA.{fn}", feat="same-support-different-ratios", timeout=10)
            if i % 3 == 0:
                # cyclic but already deterministic: the subset construction terminates
                D = {"n": 2, "I": [[0, A["I"][0][1]]], "F": [[1, A["I"][0][1]]],
                     "arcs": [[0, "a", 1, A["I"][0][1]], [1, "b", 1, [1, 4]], [1, "a", 0, [1, 4]]]}   # cycle mass < 1
                for fn in ("determinize", "push", "min_det"):
                    yield event("wop", {"sr": srn, "A": D, "sigma": sig, "L": L, "fn": fn, "style": style},
                                     site=f"WFSA.{fn}", feat="cycle", timeout=5)
            if i % 3 == 1:
                # cyclic, deterministic and PROPER (initial weight one, every state's arcs + final weight sum to one): the
                # total weight is one, so the pushed start subset is itself a normalised subset and is reached again
                n = rng.choice([2, 3])
                parts = {1: [[[1, 2]], [[1, 4]]], 2: [[[1, 2], [1, 4]], [[1, 4], [1, 4]], [[1, 4], [1, 2]]]}
                D = {"n": n, "I": [[0, [1, 1]]], "F": [], "arcs": []}
                for q in range(n):
                    toks = rng.choice([["a"], ["a", "b"], ["b"]]) if q else ["a", "b"]
                    ws = rng.choice(parts[len(toks)])
                    for t, w in zip(toks, ws):
                        D["arcs"].append([q, t, 0 if (t == "a" and q == n - 1) else rng.randrange(n), w])
                    from fractions import Fraction
                    rest = 1 - sum(Fraction(*w) for w in ws)
                    D["F"].append([q, [rest.numerator, rest.denominator]])
                # (no min_det here: the REVERSE of a cyclic deterministic machine need not be determinisable, and the
                # property speaks of determinisation only where it terminates)
                for fn in ("determinize", "push"):
                    yield event("wop", {"sr": srn, "A": D, "sigma": sig, "L": L, "fn": fn, "style": style},
                                     site=f"WFSA.{fn}", feat="proper-cycle", timeout=5)
        else:
            A = aops.rand_wfsa(rng, srn, nS=rng.choice([3, 4]), narcs=rng.choice([4, 6, 8]))
            feat = aops.afeat(A)
            base = {"sr": srn, "A": A, "sigma": sig, "L": L, "style": style}
            for fn in ("trim", "trim_vals"):
                yield event("wop", dict(base, fn=fn), site=f"WFSA.{fn}", feat=feat)
            for fn in ("trim.trim", "trim_vals.trim", "epsremove.trim", "reverse.trim"):
                if rng.random() < 0.5:
                    yield event("wop", dict(base, fn=fn), site=f"WFSA.{fn}", feat=feat + "+trim-of-a-result")


def selftests(events, rng):
    out = []
    cands = [e for e in events if "exc" not in e and e["op"] == "wop" and "deterministic" in e["posts"]
             and len(e["out"]["arcs"]) >= 1]
    rng.shuffle(cands)
    for e in cands[:6]:
        c = copy.deepcopy(e)
        c["expect"] = "reject"
        p, a, q, w = c["out"]["arcs"][0]
        c["out"]["n"] += 1
        c["out"]["arcs"].append([p, a, c["out"]["n"] - 1, w])     # a second arc for the same (state, symbol)
        out.append(c)
    cands = [e for e in events if "exc" not in e and e["op"] == "wop" and "trimmed" in e["posts"]]
    for e in cands[:4]:
        c = copy.deepcopy(e)
        c["expect"] = "reject"
        w = c["A"]["I"][0][1]
        c["out"]["n"] += 1
        c["out"]["I"].append([c["out"]["n"] - 1, w])              # an initial state that leads nowhere
        out.append(c)
    return out


DET_CFG = """INIT Init
NEXT Next
CONSTANTS MAXARCS = %d
 MAXSUBSETS = 5
 L = 3
CONSTRAINT Bounded
INVARIANT OneArcPerSymbol
INVARIANT Residuals
INVARIANT PathInvariant
INVARIANT SameLanguage
INVARIANT FunctionalAgrees
CHECK_DEADLOCK FALSE
"""


def run(report, tier, seed):
    from common import automata_core, run_tlc, MachineryError
    afam = automata_core(report, 2)
    # (A) the subset construction as a state machine, every expansion order
    k = 2 if tier == "quick" else 3
    res = run_tlc("Determinize", DET_CFG % k, timeout=3000)
    if not res.ok or res.left != 0:
        raise MachineryError("Determinize.tla: design-level check failed (the model, not the code):\n" + res.errhead)
    report.add_tlc(res, f"Determinize.tla: every epsilon-free 2-state machine over {{a,b}} with <= {k} arcs (weights 1/2, 1), every "
                        "expansion order: OneArcPerSymbol, Residuals, PathInvariant, SameLanguage, FunctionalAgrees")
    standard_run(report, "C13", MODULE, tier, seed, selftests, extra_env={"VERIF_AFAMILY": afam},
                 sample_keys=("op", "fname", "sr", "A", "posts", "site"),
                 rule=("acyclic automata over exact rationals (user Rat semiring and Float with Fractions; finite language, so "
                       "all strings up to the longest path are all strings) and cyclic deterministic ones: determinize, "
                       "min_det (same weights, single initial state, at most one arc per state and symbol, no epsilon), push "
                       "(same weights, stochastic), trim / trim_vals (same weights, only states on accepting paths) also over "
                       "Sat3/Bool with cycles; trimming the result of another operation; the number of states of determinize = the "
                       "number of weighted subsets Determinize.tla reaches on the pushed machine (conformance)"))


def replay(report, rp):
    return generic_replay(report, rp, aops.event)
