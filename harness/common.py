"""Shared machinery: paths, TLC runner, trace validation, evidence, known findings.

Run with /venv/bin/python.  The library under test is always imported from
/repo's current working tree (never a copy).
"""
import atexit
import hashlib
import json
import os
import re
import shutil
import subprocess
import sys
import threading
import time
from pathlib import Path

VERIF = Path(__file__).resolve().parent.parent
SPEC = VERIF / "spec"
REPO = Path(os.environ.get("VERIF_REPO", "/repo"))
WORKROOT = VERIF / ".work"
_OUT = Path(os.environ["VERIF_OUT"]) if os.environ.get("VERIF_OUT") else VERIF   # seed evaluation writes elsewhere
EVIDENCE = _OUT / "evidence"
REPLAYS = _OUT / "replays"
TLA_CP = "/opt/veriftools/tla/tla2tools.jar:/opt/veriftools/tla/CommunityModules-deps.jar"
NCPU = min(16, os.cpu_count() or 1)
NSH = 16  # number of independent chains in Trace*.tla

if str(REPO) not in sys.path:
    sys.path.insert(0, str(REPO))
os.environ.setdefault("GENLM_GRAMMAR_VERIF", "1")


class MachineryError(Exception):
    """The checking machinery itself failed (exit code 2); never a verdict."""


_workdir = None


_worklock = threading.Lock()          # some checks run a model in a background thread


def workdir():
    global _workdir
    with _worklock:
        if _workdir is None:
            WORKROOT.mkdir(exist_ok=True)
            d = WORKROOT / f"run-{os.getpid()}-{int(time.time() * 1000) % 10**8}"
            d.mkdir(parents=True)
            atexit.register(lambda: shutil.rmtree(d, ignore_errors=True))
            _workdir = d
        return _workdir


_counter = [0]


def fresh(name):
    wd = workdir()
    with _worklock:
        _counter[0] += 1
        d = wd / f"{name}-{_counter[0]}"
    d.mkdir()
    return d


class TLCResult:
    def __init__(self, out, rc, wall, cmd):
        self.out = out
        self.rc = rc
        self.wall = wall
        self.cmd = cmd
        m = re.search(r"(\d+) states generated, (\d+) distinct states found, (\d+) states left", out)
        self.generated = int(m.group(1)) if m else 0
        self.distinct = int(m.group(2)) if m else 0
        self.left = int(m.group(3)) if m else -1
        self.finished = "Model checking completed" in out or "Finished in" in out
        self.violated = re.findall(r"Error: Invariant (\S+) is violated", out) + re.findall(
            r"Error: Action property (\S+) is violated", out
        )
        self.errors = [l for l in out.splitlines() if l.startswith("Error:")]
        i = out.find("Error:")
        self.errhead = out[i:i + 1500] if i >= 0 else out[-1500:]

    @property
    def ok(self):
        return self.rc == 0 and not self.errors


def run_tlc(module, cfg_text, env=None, workers=None, timeout=1500, extra=(), tag=None, simulate=None):
    """Run TLC on /verif/spec/<module>.tla with the given configuration text."""
    d = fresh(tag or module)
    cfg = d / f"{module}.cfg"
    cfg.write_text(cfg_text)
    (d / "jtmp").mkdir(exist_ok=True)            # TLC leaves one empty tlc-* directory per run in java.io.tmpdir
    cmd = [
        "java", "-XX:+UseParallelGC", "-Xmx12g", "-Xss64m", f"-Djava.io.tmpdir={d / 'jtmp'}", "-cp", TLA_CP, "tlc2.TLC",
        "-workers", str(workers or NCPU), "-metadir", str(d / "meta"), "-noGenerateSpecTE",
        "-config", str(cfg),
    ]
    if simulate:
        cmd += ["-simulate", simulate]
    cmd += list(extra) + [str(SPEC / f"{module}.tla")]
    e = dict(os.environ)
    e.update(env or {})
    t0 = time.time()
    try:
        p = subprocess.run(cmd, cwd=str(SPEC), env=e, capture_output=True, text=True, timeout=timeout)
    except subprocess.TimeoutExpired as ex:
        raise MachineryError(f"TLC timeout after {timeout}s: {module}") from ex
    finally:
        shutil.rmtree(d / "meta", ignore_errors=True)
        shutil.rmtree(d / "jtmp", ignore_errors=True)
    out = p.stdout + p.stderr
    res = TLCResult(out, p.returncode, time.time() - t0, " ".join(cmd[6:]))
    res.dir = d
    return res


TRACE_CFG = "INIT Init\nNEXT Next\nCHECK_DEADLOCK FALSE\n"


def validate_trace(module, events, cfg_text=TRACE_CFG, timeout=1500, env=None):
    """Validate recorded events against Trace<module>.tla.

    Returns (rejects, res): rejects maps tid -> set of failed clause names.
    Raises MachineryError if TLC did not consume every line.
    """
    d = fresh("trace")
    f = d / "trace.ndjson"
    with open(f, "w") as fh:
        for e in events:
            fh.write(json.dumps(e, ensure_ascii=True) + "\n")
    ev = {"TRACE_FILE": str(f)}
    ev.update(env or {})
    res = run_tlc(module, cfg_text, env=ev, timeout=timeout, tag="tv")
    rejects = {}
    for m in re.finditer(r'<<"REJECT", (-?\d+), \{([^}]*)\}>>', res.out):
        rejects.setdefault(int(m.group(1)), set()).update(
            x.strip().strip('"') for x in m.group(2).split(",") if x.strip()
        )
    want = len(events) + NSH
    if not res.ok or res.distinct != want:
        last = re.findall(r"/\\ l = (\d+)", res.out)
        line = ""
        if last and 1 <= int(last[-1]) <= len(events):      # the line TLC was evaluating when it stopped
            line = "\nfailing line: " + json.dumps(events[int(last[-1]) - 1])[:3000]
        raise MachineryError(
            f"trace validation did not complete ({module}): rc={res.rc} distinct={res.distinct} want={want}\n"
            f"{res.errhead[:600]}{line}"
        )
    try:
        f.unlink()
    except OSError:
        pass
    return rejects, res


# ---------------------------------------------------------------------------
# known findings


def load_known():
    p = VERIF / "known_findings.json"
    if not p.exists():
        return {"open": [], "fixed": []}
    return json.loads(p.read_text())


def sig(obj):
    return hashlib.sha1(json.dumps(obj, sort_keys=True, ensure_ascii=True).encode()).hexdigest()[:12]


# ---------------------------------------------------------------------------
# evidence + verdict reporting


class Report:
    """Collects coverage and violations for one property check run."""

    def __init__(self, pid, tier, seed):
        self.pid = pid
        self.tier = tier
        self.seed = seed
        self.t0 = time.time()
        self.states = 0
        self.transitions = 0
        self.traces = 0
        self.evaluations = 0
        self.nontrivial = {}
        self.samples = []
        self.violations = []  # (signature-key, description, replay-object)
        self.known_hits = []
        self.assumptions = []
        self.tlc_runs = []
        self.extra = {}
        self.selftests = 0
        self.exhaustive = False
        self.rule = ""
        self.nt_cases = set()

    def add_tlc(self, res, what):
        self.states += res.distinct
        self.transitions += res.generated
        self.tlc_runs.append({"what": what, "distinct": res.distinct, "generated": res.generated,
                              "wall_s": round(res.wall, 2)})

    def count(self, key, n=1):
        self.nontrivial[key] = self.nontrivial.get(key, 0) + n

    def case(self, e, trivial=("plain",)):
        """Register one explored case; it is non-trivial when its feature key is not in `trivial`."""
        self.evaluations += 1
        f = e.get("feat", "plain")
        self.count(f)
        if f not in trivial:
            self.nt_cases.add(sig(e.get("call") or {k: v for k, v in e.items() if k != "tid"}))

    def sample(self, obj, cap=6):
        if len(self.samples) < cap:
            self.samples.append(obj)

    def violation(self, key, desc, replay):
        """key: stable identification of the failing input/call site (matched against known findings)."""
        known = load_known()
        for k in known.get("open", []):
            if k["property"] == self.pid and k["key"] == key:
                self.known_hits.append((key, k.get("what", desc)))
                return
        self.violations.append((key, desc, replay))

    def finish(self):
        EVIDENCE.mkdir(parents=True, exist_ok=True)
        REPLAYS.mkdir(parents=True, exist_ok=True)
        wall = time.time() - self.t0
        distinct_nt = len(self.nt_cases)
        cov = {
            "states": self.states,
            "transitions": self.transitions,
            "traces_validated_against_impl": self.traces,
            "evaluations": self.evaluations,
            "distinct_nontrivial": distinct_nt,
            "nontrivial_by_rule": self.nontrivial,
            "rule": self.rule,
            "samples": self.samples or [{"note": "no sample recorded"}],
            "exhaustive": self.exhaustive,
            "tlc_runs": self.tlc_runs,
            "rejection_selftests_passed": self.selftests,
            "known_findings_hit": [k for k, _ in self.known_hits],
        }
        cov.update({k: v for k, v in self.extra.items() if k != "nontrivial_disjoint"})
        ev = {
            "property_id": self.pid,
            "tier": self.tier,
            "seed": self.seed,
            "level": "model_checking",
            "coverage": cov,
            "assumptions": self.assumptions,
            "wall_s": round(wall, 2),
            "violations": len(self.violations),
        }
        (EVIDENCE / f"{self.pid}.json").write_text(json.dumps(ev, indent=1, ensure_ascii=True) + "\n")
        seen = set()
        for key, what in self.known_hits:
            if key not in seen:
                seen.add(key)
                print(f"KNOWN-FINDING: property={self.pid} {what}")
        if self.violations:
            done = set()
            for key, desc, replay in self.violations:
                if key in done:
                    continue
                done.add(key)
                path = REPLAYS / f"{self.pid}-{sig(key)}.json"
                path.write_text(json.dumps({"property": self.pid, "key": key, "what": desc, "replay": replay},
                                           indent=1, ensure_ascii=True) + "\n")
                print(f"VIOLATION property={self.pid} replay={path}")
                print(f"  {desc}")
                if len(done) >= 10:
                    break
            return 1
        print(f"OK property={self.pid} tier={self.tier} states={self.states} traces={self.traces} "
              f"wall={wall:.1f}s")
        return 0


# ---------------------------------------------------------------------------
# (A) the semantic core + (C) the TLC-enumerated exhaustive family

SEM_CFG = """CONSTANTS NTS = {%s}
 TS = {%s}
 MAXBODY = %d
 MAXRULES = %d
 WEIGHTS %s
 SRNAME = "%s"
 L = 3
 H = 3
INIT Init
NEXT Next
%s
CHECK_DEADLOCK FALSE
"""


def semantic_core(report, invariants, nts=("S", "A"), ts=("a",), maxbody=2, maxrules=2, weights=(1,), sr="Sat3"):
    """Model-check the oracle against the literal definitions on every grammar of a small family and return
    that family (written out by TLC) so that the same grammars are replayed into the real code."""
    d = fresh("fam")
    f = d / "family.ndjson"
    cfg = SEM_CFG % (", ".join(f'"{x}"' for x in nts), ", ".join(f'"{x}"' for x in ts), maxbody, maxrules,
                     (weights if isinstance(weights, str) else "= {" + ", ".join(str(w) for w in weights) + "}"), sr,
                     "\n".join(f"INVARIANT {i}" for i in invariants))
    res = run_tlc("MCGrammarSem", cfg, env={"FAMILY_FILE": str(f)}, timeout=3000)
    if not res.ok or res.left != 0:
        raise MachineryError("MCGrammarSem: the oracle disagrees with the literal definition (spec-level):\n" + res.errhead)
    report.add_tlc(res, f"MCGrammarSem {invariants} on every grammar with <= {maxrules} rules over {nts}/{ts}, bodies <= {maxbody}")
    names = {x: f"#{i}" for i, x in enumerate(nts)}
    fam = []
    for line in open(f):
        G = json.loads(line)
        fam.append({"S": names[G["S"]], "V": sorted(G["V"]),
                    "rules": [{"w": r["w"], "h": names[r["h"]], "b": [names.get(y, y) for y in r["b"]]} for r in G["rules"]]})
    out = workdir() / f"family-{len(fam)}-{_counter[0]}.json"
    out.write_text(json.dumps(fam))
    report.extra["tlc_enumerated_family_size"] = len(fam)
    return str(out)


MCA_CFG = """CONSTANTS SRNAME = "Sat3"
 L = %d
INIT Init
NEXT Next
INVARIANT ClosedFormAgrees
INVARIANT TotalIsSumOfAll
INVARIANT ReverseIsReverse
CHECK_DEADLOCK FALSE
"""


def automata_core(report, L=2):
    """Model-check the automaton oracles against each other on all two-state automata over {a, eps} and return that
    family (written out by TLC) for replay into the real code."""
    d = fresh("afam")
    f = d / "family.ndjson"
    res = run_tlc("MCAutomata", MCA_CFG % L, env={"FAMILY_FILE": str(f)}, timeout=3000)
    if not res.ok or res.left != 0:
        raise MachineryError("MCAutomata: the automaton oracles disagree with each other (spec-level):\n" + res.errhead)
    report.add_tlc(res, "MCAutomata: all 2304 two-state automata over {a, eps}: ClosedFormAgrees, TotalIsSumOfAll, ReverseIsReverse")
    fam = [json.loads(line) for line in open(f)]
    out = workdir() / f"afamily-{len(fam)}-{_counter[0]}.json"
    out.write_text(json.dumps(fam))
    report.extra["tlc_enumerated_automata"] = len(fam)
    return str(out)
