"""Projection of live library objects onto the abstract state of the specification.

The projection does no guessing and no repair: anything it cannot encode raises
MachineryError (exit 2), never a pass.
"""
import math
from fractions import Fraction

from common import MachineryError
from usersemirings import Boolean, Float, MaxTimes, MaxPlus, Real, Expectation, Rat, Log, sr_name  # noqa: F401
from genlm.grammar.wfsa.base import EPSILON

LIM = 2**30


class NonFinite(ArithmeticError):
    """The code returned NaN or an infinity as a weight: an observation (a wrong answer on the in-domain inputs the
    drivers generate), not a failure of the machinery."""



def frac(x):
    if isinstance(x, bool):
        return Fraction(int(x))
    if isinstance(x, (int, Fraction)):
        return Fraction(x)
    if isinstance(x, float) or hasattr(x, "dtype"):
        x = float(x)
        if math.isnan(x) or math.isinf(x):
            raise NonFinite(f"non-finite weight {x}")
        return Fraction(x)
    raise MachineryError(f"cannot encode weight {x!r} ({type(x).__name__})")


FX = 2**20


class OutOfModelRange(MachineryError):
    """A weight the code produced is too large for the model's rationals / fixed point.  Inside event() the line is
    counted as not judged (numeric-range); anywhere else it is a machinery error, as before."""


def enc_rat(x):
    """Exact <<n, d>> when it fits the model's 32-bit rationals.  A float that is not such a rational (the
    code path forced floating point: division, numpy) is recorded in fixed point [m, 2^20, 0]; the
    specification compares it with the exact oracle value within 2 units (Semirings.tla REq)."""
    q = frac(x)
    if abs(q.numerator) < LIM and q.denominator < LIM // 8:
        return [q.numerator, q.denominator]
    if isinstance(x, (int, Fraction)) and not isinstance(x, bool):
        pass
    if abs(q) < 2**9:
        return [int(round(q * FX)), FX, 0]
    raise OutOfModelRange(f"weight {q} does not fit the model's rationals or fixed-point range")


class WrongSemiring(TypeError):
    """A weight that is not a value of the semiring of the object it sits in (an observation, not a machinery failure)."""


def enc_w(R, w):
    """Encode weight w of semiring R in the model encoding of Semirings.tla."""
    name = sr_name(R)
    if R is Float:
        if not isinstance(w, (int, float, Fraction)) and not hasattr(w, "dtype"):
            raise WrongSemiring(f"{w!r} ({type(w).__name__}) is not a number of the Float semiring")
    elif not isinstance(w, R):
        raise WrongSemiring(f"{w!r} ({type(w).__name__}) is not a value of {R.__name__}")
    if name == "Bool":
        return int(bool(w.score))
    if name in ("Sat2", "Sat3"):
        return int(w.score)
    if name == "BM2":
        return list(w.score)
    if name == "Rat" and R is Log:
        # the real number exp(score); sums and products of the drivers' dyadic weights are rationals with small
        # denominators, recovered exactly when the float is within 1e-12 of one (two such rationals differ by > 5e-8)
        sc = float(w.score)
        if math.isnan(sc) or sc == math.inf:
            raise NonFinite(f"non-finite weight Log({sc})")
        v = math.exp(sc) if sc != -math.inf else 0.0
        q = Fraction(v).limit_denominator(4096)
        if abs(float(q) - v) <= 1e-12 * max(1.0, abs(v)):
            return enc_rat(q)
        return enc_rat(v)
    if name == "Rat":
        return enc_rat(w if R is Float else w.score)
    if name == "MaxTimes":
        return enc_rat(w.score)
    if name == "MaxPlus":
        s = w.score
        if s == -math.inf:
            return [0]
        if float(s) != int(s):
            raise MachineryError(f"MaxPlus score {s} is not an integer")
        return [1, int(s)]
    if name == "Expect":
        return [enc_rat(w.score[0]), enc_rat(w.score[1])]
    raise MachineryError(name)


_SAFE = set("abcdefghijklmnopqrstuvwxyzABCDEFGHIJKLMNOPQRSTUVWXYZ0123456789_+-*/=()[]{}<>.,;:!?@%^&|~ '")


def tname(x):
    """Injective naming of terminal symbols by ASCII strings (epsilon stays '')."""
    if isinstance(x, str):
        if x == EPSILON:
            return ""
        if all(c in _SAFE for c in x) and x[0] not in "#u<" :
            return x
        return "u" + "-".join(f"{ord(c):04X}" for c in x)
    if isinstance(x, bool):
        raise MachineryError("bool terminal")
    if isinstance(x, int):
        return f"<{x}>"
    if isinstance(x, bytes):
        return "<b" + x.hex() + ">"
    if isinstance(x, tuple):
        return "<(" + ",".join(tname(y) for y in x) + ")>"
    raise MachineryError(f"cannot name terminal {x!r}")


def seq(xs):
    return [tname(x) for x in xs]


class Namer:
    """Nonterminals -> '#k' in first-occurrence order (injective, total)."""

    def __init__(self):
        self.m = {}

    def __call__(self, x):
        k = self.m.get(x)
        if k is None:
            k = self.m[x] = f"#{len(self.m)}"
        return k


def cfg_proj(g, namer=None):
    """CFG -> {S, V, rules:[{w,h,b}]}; also returns the nonterminal naming."""
    nm = namer or Namer()
    V = sorted({tname(x) for x in g.V})
    if len(V) != len(set(g.V)):
        raise MachineryError("terminal naming not injective")
    S = tname(g.S) if g.S in g.V else nm(g.S)
    rules = []
    for r in g.rules:
        # a head that is also in V is a terminal wherever it is used (CFG.is_nonterminal): its rules are dead
        h = tname(r.head) if r.head in g.V else nm(r.head)
        b = [tname(y) if y in g.V else nm(y) for y in r.body]
        rules.append({"w": enc_w(g.R, r.w), "h": h, "b": b})
    return {"S": S, "V": V, "rules": rules}, nm


def cfg_digest(g):
    """History-free digest of a grammar's observable definition (C05 purity)."""
    return (repr(g.S), tuple(sorted(map(repr, g.V))), tuple((repr(r.w), repr(r.head), repr(r.body)) for r in g.rules))


def chart_proj(g, nm, chart):
    """Chart over nonterminals -> [[name, value], ...] for every named nonterminal."""
    out = []
    for x, k in nm.m.items():
        out.append([k, enc_w(g.R, chart[x])])
    return out
