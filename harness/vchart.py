"""Schedules of the fixed-point agenda (CFG.agenda): a choosing replacement for Chart.popitem.

CFG.agenda drains `change[b]` with dict.popitem().  The harness semirings hand out charts through the
classmethod `R.chart`; while `patched(R)` is active they hand out a Chart subclass whose popitem takes the
alternative chosen by a script (stateless exploration of every pop order on the real code, as in esched.py).
"""
from genlm.grammar.chart import Chart


class Ctrl:
    script = ()
    pos = 0
    arities = None


CTRL = Ctrl()


def reset(script=()):
    CTRL.script = tuple(script)
    CTRL.pos = 0
    CTRL.arities = []


class VChart(Chart):
    def popitem(self):
        ks = sorted(self.keys(), key=repr)
        if len(ks) > 1:
            i = CTRL.script[CTRL.pos] if CTRL.pos < len(CTRL.script) else 0
            CTRL.pos += 1
            CTRL.arities.append(len(ks))
            k = ks[i]
        else:
            k = ks[0]
        return k, dict.pop(self, k)

    def spawn(self):
        return VChart(self.semiring)


class patched:
    def __init__(self, R):
        self.R = R

    def __enter__(self):
        self.saved = self.R.__dict__.get("chart")
        self.R.chart = classmethod(lambda cls, *a, **k: VChart(cls, *a, **k))
        return self

    def __exit__(self, *a):
        if self.saved is None:
            del self.R.chart
        else:
            self.R.chart = self.saved
