"""Schedules of the Earley agenda: a choosing/tracing replacement for LocatorMaxHeap.

The agenda of next_column is `LocatorMaxHeap`, a module-level name in parse/earley.py and
parse/earley_rescaled.py; the harness replaces it (no edit of the repository).  The replacement
keeps the heap *interface* (`__setitem__`, `pop`, truthiness) and lets the harness decide which of
the maximal-priority keys is popped:

  mode 'script': at the i-th pop where more than one key has maximal priority, take alternative
                 script[i] (0 when the script is exhausted) and record the arity - used for the
                 exhaustive enumeration of tie-breaks on the real code;
  mode 'follow': pop the items of a schedule produced by TLC from Earley.tla, checking that each
                 is a maximal-priority key of the real heap (conformance).
"""
import genlm.grammar.parse.earley as E0
import genlm.grammar.parse.earley_rescaled as ER


class Ctrl:
    mode = "script"
    script = ()
    pos = 0
    arities = None
    follow = None
    fpos = 0
    diverged = None
    pops = None
    K = 0


CTRL = Ctrl()


def reset(mode, script=(), follow=None):
    CTRL.mode = mode
    CTRL.script = tuple(script)
    CTRL.pos = 0
    CTRL.arities = []
    CTRL.follow = list(follow) if follow is not None else None
    CTRL.fpos = 0
    CTRL.diverged = None
    CTRL.pops = []


class VHeap:
    def __init__(self):
        self.d = {}

    def __setitem__(self, k, v):
        self.d[k] = v

    def __contains__(self, k):
        return k in self.d

    def __len__(self):
        return len(self.d)

    def __bool__(self):
        return bool(self.d)

    def pop(self):
        mx = max(self.d.values())
        ks = sorted((k for k, v in self.d.items() if v == mx), key=repr)
        if CTRL.mode == "follow" and CTRL.diverged is None and CTRL.fpos < len(CTRL.follow):
            want = CTRL.follow[CTRL.fpos]
            CTRL.fpos += 1
            if want in ks:
                k = want
            else:
                CTRL.diverged = (CTRL.fpos - 1, want, ks)
                k = ks[0]
        else:
            if len(ks) > 1:
                i = CTRL.script[CTRL.pos] if CTRL.pos < len(CTRL.script) else 0
                CTRL.pos += 1
                CTRL.arities.append(len(ks))
                k = ks[i]
            else:
                k = ks[0]
        v = self.d.pop(k)
        CTRL.pops.append(k)
        return k, v


_saved = None


class patched:
    """Context manager installing the choosing heap in both Earley modules."""

    def __enter__(self):
        global _saved
        _saved = (E0.LocatorMaxHeap, ER.LocatorMaxHeap)
        E0.LocatorMaxHeap = VHeap
        ER.LocatorMaxHeap = VHeap
        return self

    def __exit__(self, *a):
        E0.LocatorMaxHeap, ER.LocatorMaxHeap = _saved


def all_tiebreaks(run, limit=64):
    """Stateless exploration of every tie-break of the real code.

    run() executes the real parser once under the installed heap and returns its answer.
    Yields (script, answer, number_of_tie_points)."""
    stack = [()]
    n = 0
    while stack and n < limit:
        script = stack.pop()
        reset("script", script)
        ans = run()
        ar = list(CTRL.arities)
        n += 1
        yield script, ans, len(ar)
        # children: extend beyond the given script at each later tie point
        for p in range(len(script), len(ar)):
            for alt in range(1, ar[p]):
                stack.append(tuple(script) + (0,) * (p - len(script)) + (alt,))
