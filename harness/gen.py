"""Generator sub-process: gen.py <pid> <tier> <seed> <shard> <nshards> <outfile>

Imports props.<pid>, runs generate(rng, tier, shard, nshards) against the real code (current working
tree of /repo) under this process's PYTHONHASHSEED, and writes one JSON event per line.
"""
import faulthandler
import importlib
import json
import os
import random
import sys
import warnings

sys.path.insert(0, os.path.dirname(os.path.abspath(__file__)))
import covhook  # noqa: E402
covhook.start()
warnings.simplefilter("ignore")
faulthandler.dump_traceback_later(int(os.environ.get("VERIF_GEN_TIMEOUT", "3000")), exit=True)


def main():
    pid, tier, seed, shard, nshards, out = sys.argv[1:7]
    seed, shard, nshards = int(seed), int(shard), int(nshards)
    mod = importlib.import_module(f"props.{pid.lower()}")
    rng = random.Random(seed * 1000003 + shard)
    hs = os.environ.get("PYTHONHASHSEED", "")
    with open(out, "w") as fh:
        for e in mod.generate(rng, tier, shard, nshards):
            e.setdefault("hashseed", hs)
            fh.write(json.dumps(e, ensure_ascii=True) + "\n")


if __name__ == "__main__":
    main()
