"""Input families (DESIGN.md section 5): seeded random and enumerated small-scope inputs."""
import itertools
import random
from fractions import Fraction

from usersemirings import mk, Float, Boolean, Rat, Sat2, Sat3, MaxTimes  # noqa: F401
from genlm.grammar.cfg import CFG
from genlm.grammar.wfsa.base import WFSA as BaseWFSA, EPSILON
from genlm.grammar.fst import FST

NT_NAMES = ["S", "A", "B", "C", "D"]


def weights_for(R):
    if R is Boolean:
        return [1]
    if R in (Sat2, Sat3):
        return [1, 1, 2]
    if getattr(R, "__name__", "") == "BM2":
        return [(1, 0, 0, 1), (0, 1, 0, 0), (0, 0, 1, 0), (1, 1, 0, 0), (0, 1, 1, 0), (0, 0, 0, 1)]
    return [Fraction(1, 2), Fraction(1, 4), Fraction(1), Fraction(3, 4), Fraction(2), Fraction(1, 2)]


def strings(V, L):
    V = sorted(V, key=repr)
    for n in range(L + 1):
        yield from itertools.product(V, repeat=n)


def build_cfg(R, rules, V=("a", "b"), S="S"):
    g = CFG(R=R, S=S, V=set(V))
    for w, h, body in rules:
        g.add(mk(R, w), h, *body)
    return g


def rand_rules(rng, R, nN=3, V=("a", "b"), nrules=5, maxbody=3, shape="any", dup=0.3):
    """Random rule list.

    shape = 'any'     : any symbol anywhere (nullary rules, unary cycles, duplicates, useless symbols)
            'nocycle' : no nullary rules, unary rules only point to a higher-ranked nonterminal
                        (so same-span dependencies are acyclic: rational inside weights are exact)
            'acyclic' : every body nonterminal is ranked strictly higher than the head (finite language)
            'linear'  : at most one nonterminal per body, at the right end, no nullary/unary recursion
    """
    Ns = NT_NAMES[:nN]
    ws = weights_for(R)
    rules = []
    for _ in range(rng.randint(1, nrules)):
        hi = rng.randrange(nN)
        h = Ns[hi]
        if shape == "any":
            L = rng.choice([0, 1, 1, 2, 2, 3][: maxbody * 2])
            body = tuple(rng.choice(Ns + list(V)) for _ in range(L))
        elif shape == "nocycle":
            L = rng.choice([1, 1, 2, 2, 3][: maxbody * 2 - 1])
            body = tuple(rng.choice(Ns + list(V)) for _ in range(L))
            if L == 1 and body[0] in Ns and Ns.index(body[0]) <= hi:
                body = (rng.choice(list(V)),)
        elif shape == "acyclic":
            L = rng.choice([0, 1, 1, 2, 2, 3][: maxbody * 2])
            pool = Ns[hi + 1 :] + list(V)
            body = tuple(rng.choice(pool) for _ in range(L))
        elif shape == "linear":
            L = rng.choice([1, 2, 2, 3][: maxbody * 2 - 2] or [1])
            body = tuple(rng.choice(list(V)) for _ in range(L))
            if rng.random() < 0.6:
                body = body + (rng.choice(Ns),)
        elif shape == "leftcycle":
            L = rng.choice([0, 1, 1, 2, 2, 3])
            body = tuple(rng.choice(Ns + list(V)) for _ in range(L))
        else:
            raise ValueError(shape)
        rules.append((rng.choice(ws), h, body))
    if shape == "leftcycle":
        # a left-corner cycle through 2-3 nonterminals (X -> Y ..., Y -> Z ..., Z -> X ...), branches that re-enter it,
        # nullable members and terminal exits: stresses prediction / left-corner closures
        ring = Ns[:]
        rng.shuffle(ring)
        ring = ring[: rng.choice([2, 3]) if nN >= 3 else 2]
        for x, y in zip(ring, ring[1:] + ring[:1]):
            tail = tuple(rng.choice(Ns + list(V)) for _ in range(rng.choice([0, 1, 1, 2])))
            rules.append((rng.choice(ws), x, (y,) + tail))
            if rng.random() < 0.5:
                rules.append((rng.choice(ws), x, (y, y) + tail[:1]))
        for x in ring:
            if rng.random() < 0.6:
                rules.append((rng.choice(ws), x, (rng.choice(list(V)),)))
            if rng.random() < 0.3:
                rules.append((rng.choice(ws), x, ()))
        rules.append((rng.choice(ws), ring[0], (rng.choice(list(V)),)))
        # the cycle is entered behind a terminal, through different members (so that the start symbol's own
        # left-corner closure does not contain it and different queries enter it at different points)
        outside = [x for x in Ns if x not in ring] or [Ns[0]]
        for x in ring:
            if rng.random() < 0.7:
                rules.append((rng.choice(ws), rng.choice(outside), (rng.choice(list(V)), x) + ((rng.choice(list(V)),) if rng.random() < 0.5 else ())))
        rng.shuffle(rules)
    if shape in ("any", "acyclic") and rng.random() < 0.3 and nN >= 2:
        # a nullable nonterminal that occurs twice in one body (dropping either occurrence gives the same reduced
        # body: two families of derivations whose weights must add up)
        k = rng.randrange(1, nN)
        n_ = Ns[k]
        rules.append((rng.choice(ws), n_, ()))
        if rng.random() < 0.7:
            rules.append((rng.choice(ws), n_, (rng.choice(list(V)),)))
        h = Ns[rng.randrange(0, k)]
        rules.append((rng.choice(ws), h, rng.choice([(n_, n_), (n_, rng.choice(list(V)), n_), (n_, n_, rng.choice(list(V)))])))
    # exact duplicates (same weight, head and body) are part of several properties' quantifiers
    while rules and rng.random() < dup:
        rules.insert(rng.randrange(len(rules) + 1), rng.choice(rules))
    return rules


def ring_rules(rng, R, V=("a", "b")):
    """A left-corner cycle through 2-3 nonterminals that usually contains the start symbol, members that also occur in
    non-first positions (X -> Y Y t: prediction re-enters the cycle at another member), a nullable member and
    terminal exits."""
    k = rng.choice([2, 3, 3])
    Ns = NT_NAMES[: k + (1 if rng.random() < 0.3 else 0)]
    ring = Ns[:k] if rng.random() < 0.7 else rng.sample(Ns, k)
    ws = weights_for(R)
    V = list(V)
    rules = []
    for x, y in zip(ring, ring[1:] + ring[:1]):
        rules.append((rng.choice(ws), x, (y,) + tuple(rng.choice(V + ring) for _ in range(rng.choice([0, 1, 1])))))
    for _ in range(rng.choice([1, 2])):
        x, y = rng.choice(ring), rng.choice(ring)
        rules.append((rng.choice(ws), x, (y, y, rng.choice(V))))
    rules.append((rng.choice(ws), rng.choice(ring), ()))
    for x in ring:
        if rng.random() < 0.5:
            rules.append((rng.choice(ws), x, (rng.choice(V),)))
    rules.append((rng.choice(ws), ring[-1], (rng.choice(V),)))
    rng.shuffle(rules)
    return rules


def chord_rules(rng, R, V=("a", "b")):
    """One UNARY strongly connected component of 3-4 nonterminals with chords (a node with two back edges: R -> M,
    M -> A, A -> R, A -> M), entered from the start symbol or containing it, with terminal exits; the nonterminals are
    taken in a random order so that every visiting order of the component decomposition occurs."""
    k = rng.choice([3, 4, 4])
    Ns = rng.sample(NT_NAMES[:5], k)
    ws = weights_for(R)
    V = list(V)
    rules = [(rng.choice(ws), x, (y,)) for x, y in zip(Ns, Ns[1:] + Ns[:1])]          # the big cycle
    for _ in range(rng.choice([1, 2, 3])):                                           # chords
        x, y = rng.sample(Ns, 2)
        rules.append((rng.choice(ws), x, (y,)))
    for x in Ns:
        if rng.random() < 0.6:
            rules.append((rng.choice(ws), x, (rng.choice(V),)))
    rules.append((rng.choice(ws), Ns[-1], (rng.choice(V),)))
    if "S" not in Ns:
        rules.append((rng.choice(ws), "S", (rng.choice(Ns),)))
        rules.append((rng.choice(ws), "S", (rng.choice(Ns), rng.choice(V))))
    rng.shuffle(rules)
    return rules


def twocycle_rules(rng, R, V=("a", "b")):
    """Two separate unary cycles (A <-> B and C <-> D, possibly through the start symbol) joined by a unary bridge,
    with terminal exits: unary-cycle removal must keep the bridge."""
    Ns = NT_NAMES[:5]
    ws = weights_for(R)
    if getattr(R, "__name__", "") not in ("Sat3", "Sat2", "Boolean", "BM2"):
        ws = [w for w in ws if w < 1] or ws          # convergent cycles over the rationals
    c1, c2 = rng.choice([(["S", "A"], ["B", "C"]), (["A", "B"], ["C", "D"]), (["A", "B"], ["S", "C"]), (["S"], ["A", "B"])])
    V = list(V)
    rules = []
    for cyc in (c1, c2):
        for x, y in zip(cyc, cyc[1:] + cyc[:1]):
            rules.append((rng.choice(ws), x, (y,)))
    rules.append((rng.choice(ws), rng.choice(c1), (rng.choice(c2),)))          # the bridge
    rules.append((rng.choice(ws), rng.choice(c2), (rng.choice(V),)))
    if rng.random() < 0.5:
        rules.append((rng.choice(ws), rng.choice(c1), (rng.choice(V), rng.choice(c1 + c2))))
    if "S" not in c1 + c2:
        rules.append((rng.choice(ws), "S", (rng.choice(c1),) + ((rng.choice(V),) if rng.random() < 0.5 else ())))
    rng.shuffle(rules)
    return rules


def rand_cfg(rng, R, **kw):
    if kw.get("shape") == "twocycles":
        V = kw.pop("V", ("a", "b"))
        return build_cfg(R, twocycle_rules(rng, R, V=V), V=V)
    if kw.get("shape") == "chord":
        V = kw.pop("V", ("a", "b"))
        return build_cfg(R, chord_rules(rng, R, V=V), V=V)
    if kw.get("shape") == "ring":
        V = kw.pop("V", ("a", "b"))
        return build_cfg(R, ring_rules(rng, R, V=V), V=V)
    V = kw.pop("V", ("a", "b"))
    return build_cfg(R, rand_rules(rng, R, V=V, **kw), V=V)


def signed_cfg(rng, R):
    """Signed real weights: a repeated rule comes back with the opposite weight, so that partial sums (of a unary chain,
    of a nullable symbol, of an item) are exactly zero before or after a later contribution."""
    g0 = rand_cfg(rng, R, shape="acyclic", nN=rng.choice([2, 3, 3]), nrules=rng.choice([4, 6, 7]), dup=0.5)
    g = g0.spawn()
    seen = set()
    rules = list(g0.rules)
    for r in rules:
        k = (r.head, r.body)
        g.add(-r.w if (k in seen or rng.random() < 0.25) else r.w, r.head, *r.body)
        seen.add(k)
    for _ in range(rng.randint(1, 2)):          # at least one exactly cancelling pair; unary rules first
        un = [r for r in rules if len(r.body) == 1 and r.body[0] not in g.V]
        r = rng.choice(un if un and rng.random() < 0.6 else rules)
        g.add(-r.w, r.head, *r.body)
        if rng.random() < 0.5:
            g.add(r.w * rng.choice([1, 2]), r.head, *r.body)    # ... and a later contribution on top of the zero
    return g


def ensure_language(g, rng):
    """Add a couple of rules so that something parses (used by history/LM drivers)."""
    R = g.R
    V = sorted(g.V)
    g.add(mk(R, 1), g.S, V[0], g.S)
    g.add(mk(R, 1), g.S, V[-1])
    return g


# variants that must not change any answer ---------------------------------

def permuted(g, rng):
    new = g.spawn()
    rules = list(g.rules)
    rng.shuffle(rules)
    for r in rules:
        new.add(r.w, r.head, *r.body)
    return new


def renamed(g, style):
    """Rename nonterminals: 'int' -> 100+k, 'tuple' -> ('n', k), 'rev' -> reversed strings."""
    names = {}

    def f(x):
        if x not in names:
            k = len(names)
            names[x] = {"int": 100 + k, "tuple": ("n", k), "str": f"Z{9 - k}"}[style]
        return names[x]

    f(g.S)
    return g.rename(f)


# structural features used for the non-triviality counters -------------------

def features(g):
    V = g.V
    nullable = set()
    ch = True
    while ch:
        ch = False
        for r in g.rules:
            if r.head not in nullable and all(y in nullable for y in r.body):
                nullable.add(r.head)
                ch = True
    unary = {(r.head, r.body[0]) for r in g.rules if len(r.body) == 1 and r.body[0] not in V}
    # same-span edges: X -> a Y b with a, b nullable
    span = set()
    for r in g.rules:
        for j, y in enumerate(r.body):
            if y not in V and all((z in nullable) for m, z in enumerate(r.body) if m != j):
                span.add((r.head, y))

    def cyclic(E):
        adj = {}
        for a, b in E:
            adj.setdefault(a, set()).add(b)
        for s in adj:
            seen, st = set(), [s]
            while st:
                x = st.pop()
                for y in adj.get(x, ()):
                    if y == s:
                        return True
                    if y not in seen:
                        seen.add(y)
                        st.append(y)
        return False

    heads = [(r.head, r.body) for r in g.rules]
    return {
        "nullary": any(len(r.body) == 0 for r in g.rules),
        "unary_cycle": cyclic(unary),
        "nullable_cycle": cyclic(span) and not cyclic(unary),
        "duplicate_rule": len(set(heads)) < len(heads),
        "left_recursive": any(r.body and r.body[0] == r.head for r in g.rules),
        "start_on_rhs": any(g.S in r.body for r in g.rules),
    }


def feature_key(g):
    f = features(g)
    return "+".join(k for k, v in sorted(f.items()) if v) or "plain"


def tlc_family(shard, nshards):
    """The slice of the TLC-enumerated exhaustive family (MCGrammarSem.tla) this generator process replays."""
    import json
    import os
    path = os.environ.get("VERIF_FAMILY")
    if not path:
        return []
    fam = json.load(open(path))
    return [G for i, G in enumerate(fam) if i % nshards == shard]
