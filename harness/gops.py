"""Replayable grammar-level operations on the real code.

Every event is produced by `event(fn, args)`: `args` is pure JSON (projected grammars, strings,
options), the grammar the code sees is rebuilt from exactly that JSON, the real API is called, and
the observation is recorded at the call's return (or its exception).  Replaying an event re-runs
`event(fn, args)` against the current working tree.
"""
import re
import signal
from fractions import Fraction

import usersemirings as us
from common import MachineryError
from project import OutOfModelRange
from project import cfg_proj, enc_w, seq, tname, chart_proj, Namer, cfg_digest
from genlm.grammar.cfg import CFG
from genlm.grammar.cfglm import EOS, add_EOS, locally_normalize, BoolCFGLM

SR = {"Bool": us.Boolean, "Sat2": us.Sat2, "Sat3": us.Sat3, "Rat": us.Float, "RatU": us.Rat,
      "MaxTimes": us.MaxTimes, "Real": us.Real, "BM2": us.BM2, "Log": us.Log}
EOS_NAME = tname(EOS)


class CallTimeout(Exception):
    pass


def _alarm(signum, frame):
    raise CallTimeout()


signal.signal(signal.SIGALRM, _alarm)


def guarded(f, seconds=20):
    signal.alarm(seconds)
    try:
        return f()
    finally:
        signal.alarm(0)


def unt(name):
    """Inverse of project.tname for the terminals the drivers use."""
    if re.fullmatch(r"u[0-9A-F]{4,6}(-[0-9A-F]{4,6})*", name):
        return "".join(chr(int(h, 16)) for h in name[1:].split("-"))
    m = re.fullmatch(r"<(\d+)>", name)
    if m:
        return int(m.group(1))
    return name


def dec_w(R, w):
    if R is us.Boolean:
        return us.Boolean(bool(w))
    if R in (us.Sat2, us.Sat3):
        return R(w)
    if R is us.BM2:
        return us.BM2(w)
    q = Fraction(w[0], w[1])
    if R is us.Float:
        return q
    if R is us.Log:
        return us.mk(R, q)
    return R(q)


NAME_STYLES = ("str", "int", "tuple", "mixed")


def nt_name(style, k):
    if style == "str":
        return f"N{k}"
    if style == "int":
        return 1000 + 7 * k
    if style == "tuple":
        return ("n", k)
    if style == "mixed":
        return [f"N{k}", 2000 + k, ("m", k), frozenset([k])][k % 4]
    raise ValueError(style)


EARLY_OPS = {
    "separate_start": lambda g: g.separate_start(),
    "separate_terminals": lambda g: g.separate_terminals(),
    "binarize": lambda g: g.binarize(),
    "unaryremove": lambda g: g.unaryremove(),
    "renumber": lambda g: g.renumber(),
    "null_weight": lambda g: g.null_weight(),
    "nullaryremove_notrim": lambda g: g.nullaryremove(trim=False),
    "unarycycleremove_notrim": lambda g: g.unarycycleremove(trim=False),
    "derivative": lambda g: g.derivative(sorted(g.V, key=repr)[0]),
    "add_EOS": lambda g: add_EOS(g),
    "has_unary_cycle": lambda g: g.has_unary_cycle(),
}


def build(G, srname, names="str", pre=None, late=0, early=None):
    """Rebuild a CFG from its projection."""
    R = SR[srname]
    V = {unt(x) for x in G["V"]}
    tn = {x: unt(x) for x in G["V"]}

    def sym(y):
        if y in tn:
            return tn[y]
        assert y.startswith("#"), y
        return nt_name(names, int(y[1:]))

    g = CFG(R=R, S=sym(G["S"]), V=V)
    for r in G["rules"][: len(G["rules"]) - late]:
        g.add(dec_w(R, r["w"]), sym(r["h"]), *[sym(y) for y in r["b"]])
    if late:
        # the last `late` rules are added AFTER the object was already used once (total weights, and the cache-free
        # transformations listed in `early`): later answers must be those of the whole grammar - nothing computed
        # earlier may be silently reused.  (Only operations that keep no cache on the unchanged tree are used here;
        # trim / cnf / rhs / prefix_grammar are documented-by-code caches and would be stale by design.)
        g.agenda()
        g.treesum()
        for name in early or ():
            EARLY_OPS[name](g)
        for r in G["rules"][len(G["rules"]) - late:]:
            g.add(dec_w(R, r["w"]), sym(r["h"]), *[sym(y) for y in r["b"]])
    return warm_cfg(g, pre)


CFG_PRE = ("agenda", "treesum", "naive", "trim", "cotrim", "cnf", "prefix_grammar", "rhs", "call", "nullaryremove",
           "unaryremove", "unarycycleremove", "derivative", "materialize", "renumber", "binarize", "agenda_maxiter",
           "treesum_maxiter", "treesum_tol", "agenda_tol")


def safe_pre(srn, shape):
    """Preludes that terminate: total-weight evaluations only where the total weight is finite."""
    if srn in ("Sat3", "Sat2", "Bool") or shape == "acyclic":
        return CFG_PRE
    return tuple(x for x in CFG_PRE if x not in ("agenda", "treesum", "naive", "agenda_maxiter", "treesum_maxiter",
                                                 "treesum_tol", "agenda_tol"))


def warm_cfg(g, pre):
    """Earlier queries / transformations on the SAME grammar object (it caches trim, rhs, cnf, prefix_grammar):
    they must not change any later answer (C05) - and every answer is still judged by the oracle."""
    for name in pre or ():
        if name == "agenda":
            g.agenda()
        elif name == "agenda_maxiter":
            g.agenda(maxiter=2)
        elif name == "treesum":
            g.treesum()
        elif name == "treesum_maxiter":
            g.treesum(maxiter=2)
        elif name == "treesum_tol":
            g.treesum(tol=0.05)
        elif name == "agenda_tol":
            g.agenda(tol=0.3)
        elif name == "naive":
            g.naive_bottom_up()
        elif name == "call":
            g(())
        elif name == "derivative":
            g.derivative(sorted(g.V, key=repr)[0])
        elif name == "materialize":
            g.materialize(1)
        elif name == "add_eos_custom":
            add_EOS(g, eos="$")                  # the grammar was wrapped with another end symbol before
        elif name in ("cnf", "prefix_grammar", "rhs"):
            getattr(g, name)
        else:
            getattr(g, name)()
    return g


def srmodel(srname):
    return {"RatU": "Rat", "Real": "Rat", "Log": "Rat"}.get(srname, srname)


def ustr(s):
    return tuple(unt(x) for x in s)


# ---------------------------------------------------------------------------
# operations: each takes args (JSON) and returns the observation fields of the event


def _parser(kind, g):
    if kind == "earley":
        from genlm.grammar.parse.earley import Earley
        return Earley(g)
    if kind == "rescaled":
        from genlm.grammar.parse.earley_rescaled import Earley
        return Earley(g)
    if kind == "cky":
        from genlm.grammar.parse.cky import IncrementalCKY
        return IncrementalCKY(g.cnf)
    raise ValueError(kind)


def f_parse(a):
    g = build(a["G"], a["sr"], a.get("names", "str"), a.get("pre"), a.get("late", 0))
    s = ustr(a["s"])
    k = a["parser"]
    if k == "direct":
        v = g(s)
    elif k == "cnfchart":
        c = g.cnf
        v = c._parse_chart(s)[0, c.S, len(s)]
    elif "script" in a or "follow" in a:
        # a tie-break schedule of the agenda, forced through the choosing heap (esched.py)
        import esched
        with esched.patched():
            if "script" in a:
                esched.reset("script", a["script"])
            else:
                esched.reset("follow", follow=[(j, y) for j, y in a["follow"]])
            v = _parser(k, g)(s)
    else:
        p = _parser(k, g)
        for w in a.get("warm", ()):      # earlier queries on the same parser object
            p(ustr(w))
        v = p(s)
    return {"op": "parse", "sr": srmodel(a["sr"]), "G": a["G"], "s": a["s"], "res": enc_w(g.R, coerce(g.R, v))}


def coerce(R, v):
    """A parser answer must be an element of the semiring: plain numbers are accepted only for
    number-valued semirings (Float)."""
    if R is us.Float:
        return v
    if not isinstance(v, us.Semiring):
        raise TypeError(f"answer {v!r} is not a value of semiring {R.__name__}")
    return v


def f_prefix(a):
    g = build(a["G"], a["sr"], a.get("names", "str"), a.get("pre"), a.get("late", 0))
    s = ustr(a["s"])
    how = a["how"]
    if how == "prefix_weight":
        v = g.prefix_weight(s)
    elif how == "derivatives":
        v = g.derivatives(s)[-1].treesum()
    else:
        raise ValueError(how)
    return {"op": "prefix", "sr": srmodel(a["sr"]), "G": a["G"], "s": a["s"], "res": enc_w(g.R, coerce(g.R, v))}


def f_derivcall(a):
    """cfg.derivative(a1)...derivative(ak)(y): recorded as the weight of pre.y under the original grammar."""
    g = build(a["G"], a["sr"], a.get("names", "str"))
    d = g
    idx = a.get("idx") or [None] * len(a["pre"])
    for x, i in zip(ustr(a["pre"]), idx):
        d = d.derivative(x) if i is None else d.derivative(x, i=i)
    v = d(ustr(a["y"]))
    return {"op": "parse", "sr": srmodel(a["sr"]), "G": a["G"], "s": a["pre"] + a["y"], "res": enc_w(g.R, coerce(g.R, v))}


def f_explen(a):
    g = build(a["G"], a["sr"], a.get("names", "str"))
    v = g.expected_length
    from project import enc_rat
    return {"op": "explen", "sr": "Rat", "G": a["G"], "res": enc_rat(v)}


def f_prefixgrammar(a):
    g = build(a["G"], a["sr"], a.get("names", "str"), a.get("pre"), a.get("late", 0))
    before = cfg_digest(g)
    out, _ = cfg_proj(g.prefix_grammar)
    if cfg_digest(g) != before:
        raise AssertionError("prefix_grammar changed the grammar it was applied to")
    return {"op": "prefixgrammar", "sr": srmodel(a["sr"]), "in": a["G"], "out": out, "sigma": a["G"]["V"], "L": a["L"]}


def f_derivative(a):
    g = build(a["G"], a["sr"], a.get("names", "str"), a.get("prelude"), a.get("late", 0))   # here "pre" is the token prefix
    pre = ustr(a["pre"])
    d = g
    idx = a.get("idx") or [None] * len(pre)           # the optional index argument that keeps slash symbols apart
    for x, i in zip(pre, idx):
        d = d.derivative(x) if i is None else d.derivative(x, i=i)
    out, _ = cfg_proj(d)
    return {"op": "derivative", "sr": srmodel(a["sr"]), "in": a["G"], "out": out, "pre": a["pre"],
            "sigma": a["G"]["V"], "L": a["L"]}


def _text_ok(g):
    """Grammars the textual format can spell: a shipped weight class with from_string, terminals that are plain words."""
    return (g.R in (us.Boolean, us.Float, us.Real, us.MaxTimes)
            and all(isinstance(x, str) and x.isalnum() and x.islower() for x in g.V))


def _text_roundtrip(g, arrow):
    """CFG.from_string(text of g): the grammar printed in the library's textual format and parsed back (nonterminals
    are spelled N0, N1, ... and declared through is_terminal)."""
    if not _text_ok(g):               # (a re-spelled variant of the call: token ids have no textual form)
        return g
    names = {g.S: "N0"}
    for r in g.rules:
        for x in (r.head,) + tuple(y for y in r.body if y not in g.V):
            names.setdefault(x, f"N{len(names)}")

    def wtxt(w):
        if g.R is us.Boolean:
            return "True" if w == us.Boolean.one else "False"
        return repr(float(w if g.R is us.Float else w.score))
    lines = ["# printed by the harness", ""]
    for r in g.rules:
        lines.append(f"{wtxt(r.w)}: {names[r.head]} {arrow} {' '.join(names.get(y, y) for y in r.body)}")
    out = CFG.from_string("\n".join(lines), g.R, start="N0", is_terminal=lambda x: x in g.V)
    out.V |= g.V                      # (the vocabulary of the text is the set of terminals it mentions)
    return out


def _rename_int(g):
    """An injective renaming of the nonterminals to integers: the start symbol becomes 0 (a falsy name)."""
    free = (k for k in range(0, -10000, -1) if k not in g.V)
    names = {g.S: next(free)}
    for r in g.rules:
        for x in (r.head,) + tuple(y for y in r.body if y not in g.V):
            if x not in names:
                names[x] = next(free)
    return g.rename(lambda x: names[x])


TRANSFORMS = {
    # name: (callable, postconditions)
    "trim": (lambda g, o: g.trim(), ["trimmed", "nozero"]),
    "cotrim": (lambda g, o: g.cotrim(), ["cotrimmed"]),
    "binarize": (lambda g, o: g.binarize(), ["arity2"]),
    "separate_start": (lambda g, o: g.separate_start(), ["startoff"]),
    "separate_terminals": (lambda g, o: g.separate_terminals(), ["preterminal"]),
    "nullaryremove": (lambda g, o: g.nullaryremove(**o), ["nonullary"]),
    "unaryremove": (lambda g, o: g.unaryremove(), ["nounary"]),
    "unarycycleremove": (lambda g, o: g.unarycycleremove(**o), ["nounarycycle"]),
    "cnf": (lambda g, o: g.cnf, ["cnf"]),
    "renumber": (lambda g, o: g.renumber(), []),
    "rename": (lambda g, o: g.rename(lambda x: ("r", x)), []),
    "rename_int": (lambda g, o: _rename_int(g), []),
    "text": (lambda g, o: _text_roundtrip(g, o.get("arrow", "→")), []),
    "unfold": (lambda g, o: g.unfold(o["i"], o["k"]), []),
    "getitem_start": (lambda g, o: g[g.S], []),
}


def f_transform(a):
    """Apply a pipeline of transformations; one event for the whole pipeline (in -> out) carrying
    the postconditions of the last step."""
    g = build(a["G"], a["sr"], a.get("names", "str"), a.get("pre"), a.get("late", 0), a.get("early"))
    before = cfg_digest(g)
    cur = g
    posts = []
    for name, opts in a["pipeline"]:
        fn, posts = TRANSFORMS[name]
        cur = fn(cur, opts or {})
        if name == "nullaryremove" and (opts or {}).get("trim") is False:
            posts = ["nonullary"]
        if name == "unarycycleremove" and (opts or {}).get("trim", True):
            posts = posts + ["trimmed"]
        if name == "nullaryremove" and (opts or {}).get("trim", True):
            posts = posts + ["trimmed"]
    if cfg_digest(g) != before:
        raise AssertionError("transformation changed the grammar it was applied to")
    out, _ = cfg_proj(cur)
    return {"op": "transform", "sr": srmodel(a["sr"]), "in": a["G"], "out": out, "sigma": a["G"]["V"],
            "L": a["L"], "posts": posts, "tfm": "|".join(n for n, _ in a["pipeline"])}


def f_treesum(a):
    g = build(a["G"], a["sr"], a.get("names", "str"), a.get("pre"), a.get("late", 0))
    how = a["how"]
    kw = dict(a.get("kw") or {})                 # explicit tol= / maxiter= of the judged call
    if how == "treesum":
        v = g.treesum(**kw)
        if a.get("twice"):
            v = g.treesum(**kw)
        return {"op": "treesum1", "sr": srmodel(a["sr"]), "G": a["G"], "res": enc_w(g.R, coerce(g.R, v))}
    if how == "agenda" and "popscript" in a:
        # a pop order of the agenda, forced through the choosing chart (vchart.py)
        import vchart
        with vchart.patched(g.R):
            vchart.reset(a["popscript"])
            ch = g.agenda()
        ch = {k: v for k, v in ch.items()}
        ch = type("C", (dict,), {"__missing__": lambda self, k: g.R.zero})(ch)
    elif how == "agenda":
        ch = g.agenda(**({"tol": a["tol"]} if "tol" in a else kw))
    elif how == "naive":
        ch = g.naive_bottom_up()
    else:
        raise ValueError(how)
    nm = Namer()
    # name nonterminals exactly as cfg_proj does, so that the chart lines up with a["G"]
    G2, nm = cfg_proj(g)
    if G2 != a["G"]:
        raise MachineryError("projection is not stable under rebuild")
    for x in ch:
        if x not in g.V and x not in nm.m:
            nm(x)
    return {"op": a.get("as", "treesum"), "sr": srmodel(a["sr"]), "G": a["G"],
            "chart": [[k, enc_w(g.R, coerce(g.R, ch[x]))] for x, k in nm.m.items()]}


def f_lang(a):
    g = build(a["G"], a["sr"], a.get("names", "str"), a.get("pre"), a.get("late", 0))
    ch = g.materialize(a["L"])
    return {"op": "lang", "sr": srmodel(a["sr"]), "G": a["G"], "L": a["L"],
            "entries": [[seq(k), enc_w(g.R, coerce(g.R, v))] for k, v in ch.items() if v != g.R.zero]}


def f_mask(a):
    g = build(a["G"], a["sr"], a.get("names", "str"))
    if a.get("tiny") and g.R is us.Float:
        # the same grammar with float weights around 1e-200: the mask depends on the support only
        gt = g.spawn()
        for r in g.rules:
            gt.add(float(r.w) * 1e-200, r.head, *r.body)
        g = gt
    lm = BoolCFGLM(g, alg=a["alg"])
    ctx = ustr(a["ctx"])
    for w in a.get("warm", ()):          # earlier queries on the same LM object
        lm.p_next(ustr(w))
    p = lm.p_next(ctx)
    for k, v in p.items():
        if v != 1:
            raise AssertionError(f"mask value {v!r} for {k!r}")
    Gb = {"S": a["G"]["S"], "V": a["G"]["V"], "rules": [dict(r, w=1) for r in a["G"]["rules"]]}
    return {"op": "mask", "sr": "Bool", "G": Gb, "ctx": a["ctx"], "eos": EOS_NAME, "keys": seq(p.keys())}


def f_addeos(a):
    g = build(a["G"], a["sr"], a.get("names", "str"), a.get("pre"), a.get("late", 0))
    if a.get("eos2") is not None:
        # wrapped twice, with two different end symbols: the inner wrap is judged as the INPUT of the outer one
        inner = add_EOS(g, eos=unt(a["eos"]))
        Gin, _ = cfg_proj(inner)
        out, _ = cfg_proj(add_EOS(inner, eos=unt(a["eos2"])))
        return {"op": "addeos", "sr": srmodel(a["sr"]), "in": Gin, "out": out, "sigma": Gin["V"], "eos": a["eos2"], "L": a["L"]}
    if a.get("eos") is not None:               # a caller-chosen end-of-sequence symbol
        out, _ = cfg_proj(add_EOS(g, eos=unt(a["eos"])))
    else:
        out, _ = cfg_proj(add_EOS(g))
    return {"op": "addeos", "sr": srmodel(a["sr"]), "in": a["G"], "out": out, "sigma": a["G"]["V"],
            "eos": a["eos"] if a.get("eos") is not None else EOS_NAME, "L": a["L"]}


def f_normalize(a):
    g = build(a["G"], a["sr"], a.get("names", "str"), a.get("pre"), a.get("late", 0))
    out, _ = cfg_proj(locally_normalize(g))
    return {"op": "normalize", "sr": srmodel(a["sr"]), "in": a["G"], "out": out, "sigma": a["G"]["V"], "L": a["L"]}


def _lm(backend, g):
    if backend == "earley":
        from genlm.grammar.parse.earley import EarleyLM
        return EarleyLM(g)
    if backend == "rescaled":
        from genlm.grammar.parse.earley_rescaled import EarleyLM
        return EarleyLM(g)
    if backend == "cky":
        from genlm.grammar.parse.cky import CKYLM
        return CKYLM(g)
    raise ValueError(backend)


def _dist(g, lm, p):
    toks = sorted(lm.V, key=repr)
    return [[tname(t), enc_w(g.R, p[t])] for t in toks]


def f_pnext(a):
    g = build(a["G"], a["sr"], a.get("names", "str"), a.get("pre"))
    lm = _lm(a["backend"], g)
    ctx = ustr(a["ctx"])
    for pre in a.get("warm", []):          # earlier queries on the same object (history must not matter)
        lm.p_next(ustr(pre))
    p = lm.p_next(ctx)
    return {"op": "pnext", "sr": srmodel(a["sr"]), "G": a["G"], "ctx": a["ctx"], "eos": EOS_NAME, "dist": _dist(g, lm, p)}


def f_ntw(a):
    """Unnormalised next-token weights of the parser that the LM is built on."""
    g = build(a["G"], a["sr"], a.get("names", "str"))
    ge = add_EOS(g)
    ctx = ustr(a["ctx"])
    k = a["backend"]
    if k == "earley":
        from genlm.grammar.parse.earley import Earley
        m = Earley(ge.prefix_grammar)
        p = m.next_token_weights(m.chart(ctx))
    elif k == "cky":
        from genlm.grammar.parse.cky import IncrementalCKY
        m = IncrementalCKY(ge.cnf.prefix_grammar.cnf)
        p = m.p_next(ctx)
    else:
        raise ValueError(k)
    toks = sorted(ge.V, key=repr)
    return {"op": "ntw", "sr": srmodel(a["sr"]), "G": a["G"], "ctx": a["ctx"], "eos": EOS_NAME,
            "dist": [[tname(t), enc_w(g.R, coerce(g.R, p[t]))] for t in toks]}


def f_ntw_vs_parser(a):
    """ntw[t] must be the weight the underlying parser assigns to ctx.t: recorded as parse events' twin."""
    g = build(a["G"], a["sr"], a.get("names", "str"))
    ge = add_EOS(g)
    ctx = ustr(a["ctx"])
    from genlm.grammar.parse.earley import Earley
    m = Earley(ge.prefix_grammar)
    p = m.next_token_weights(m.chart(ctx))
    toks = sorted(ge.V, key=repr)
    same = all(p[t] == m(ctx + (t,)) for t in toks)
    if not same:
        raise AssertionError("next_token_weights differs from the parser's weight of context+token")
    return {"op": "ntw", "sr": srmodel(a["sr"]), "G": a["G"], "ctx": a["ctx"], "eos": EOS_NAME,
            "dist": [[tname(t), enc_w(g.R, coerce(g.R, m(ctx + (t,))))] for t in toks]}


def f_lmcall(a):
    g = build(a["G"], a["sr"], a.get("names", "str"), a.get("pre"))
    lm = _lm(a["backend"], g)
    s = ustr(a["s"])
    v = lm(s + (EOS,))
    return {"op": "lmcall", "sr": srmodel(a["sr"]), "G": a["G"], "s": a["s"], "res": enc_w(g.R, v)}


class UnsupportedDraw(Exception):
    pass


def f_sample(a):
    """LM.sample with a scripted `draw`: the generation loop of Generation.tla, one Draw/Stop per call of `draw`.

    script entries are token names (a behaviour generated by TLC) or integers (an index into the support the CODE offers,
    for random walks); when the script is used up, end-of-sequence is drawn."""
    g = build(a["G"], a["sr"], a.get("names", "str"), a.get("pre"))
    lm = _lm(a["backend"], g)
    script = list(a["script"])
    steps = []

    def draw(p):
        toks = sorted(lm.V, key=repr)
        supp = [t for t in toks if p[t] != 0]
        want = script[len(steps)] if len(steps) < len(script) else EOS_NAME
        if isinstance(want, int):
            y = supp[want % len(supp)]
        else:
            y = EOS if want == EOS_NAME else unt(want)
        steps.append([tname(y), enc_w(g.R, float(p[y])), sorted(tname(t) for t in supp)])
        if p[y] == 0 and y != EOS:
            raise UnsupportedDraw(f"token {want!r} has probability zero at step {len(steps)}")
        return y

    kw = {}
    if a.get("bound") is not None:
        kw["max_tokens"] = a["bound"]
    ys, P = lm.sample(draw=draw, **kw)
    out = {"op": "sample", "sr": srmodel(a["sr"]), "G": a["G"], "eos": EOS_NAME, "ys": [tname(y) for y in ys],
           "steps": steps, "res": enc_w(g.R, float(P)), "bound": a["bound"] if a.get("bound") is not None else -1}
    return out


def f_pnextseq(a):
    g = build(a["G"], a["sr"], a.get("names", "str"), a.get("pre"))
    lm = _lm(a["backend"], g)
    v = lm.p_next_seq(ustr(a["ctx"]), ustr(a["ext"]))
    return {"op": "pnextseq", "sr": srmodel(a["sr"]), "G": a["G"], "ctx": a["ctx"], "ext": a["ext"], "res": enc_w(g.R, v)}


def f_mapbool(a):
    g = build(a["G"], a["sr"], a.get("names", "str"))
    before = cfg_digest(g)
    out = g.map_values(lambda x: us.Boolean(x != g.R.zero), us.Boolean)
    if cfg_digest(g) != before:
        raise AssertionError("map_values changed the grammar it was applied to")
    O, _ = cfg_proj(out)
    return {"op": "mapbool", "sr": srmodel(a["sr"]), "in": a["G"], "out": O, "sigma": a["G"]["V"], "L": a["L"]}


def f_pnextrl(a):
    """p_next on a LONG context; the grammar is built with float weights, as a user would."""
    G = a["G"]
    g = CFG(R=us.Float, S=G["S"], V={unt(x) for x in G["V"]})
    for r in G["rules"]:
        g.add(float(Fraction(*r["w"])), r["h"], *[unt(y) if y in G["V"] else y for y in r["b"]])
    lm = _lm(a["backend"], g)
    ctx = ustr(a["ctx"])
    if a.get("stepwise"):                 # warm the cache token by token, as generation does
        for i in range(0, len(ctx), a["stepwise"]):
            lm.p_next(ctx[:i])
    p = lm.p_next(ctx)
    toks = sorted(lm.V, key=repr)
    return {"op": "pnextrl", "sr": "Rat", "G": G, "ctx": a["ctx"], "eos": EOS_NAME, "n": len(ctx),
            "dist": [[tname(t), enc_w(us.Float, float(p[t]))] for t in toks]}


def f_treesumrl(a):
    """agenda() on a float-weighted proper right-linear grammar (possibly converging very slowly)."""
    G = a["G"]
    g = CFG(R=us.Float, S=G["S"], V={unt(x) for x in G["V"]})
    for r in G["rules"]:
        g.add(float(Fraction(*r["w"])), r["h"], *[unt(y) if y in G["V"] else y for y in r["b"]])
    ch = g.agenda()
    nts = sorted({r["h"] for r in G["rules"]} | {G["S"]})
    return {"op": "treesumrl", "sr": "Rat", "G": G, "chart": [[x, enc_w(us.Float, float(ch[x]))] for x in nts]}


def f_normalizerl(a):
    """locally_normalize on a float-weighted PROPER right-linear grammar with recursion (every total is one, so the
    result must carry the input's weights): the cyclic counterpart of the exact-rational normalize events."""
    G = a["G"]
    g = CFG(R=us.Float, S=G["S"], V={unt(x) for x in G["V"]})
    for r in G["rules"]:
        g.add(float(Fraction(*r["w"])), r["h"], *[unt(y) if y in G["V"] else y for y in r["b"]])
    out = locally_normalize(g)
    rules = [{"w": enc_w(us.Float, float(r.w)), "h": r.head, "b": [tname(y) if y in g.V else y for y in r.body]}
             for r in out.rules]
    return {"op": "normalizerl", "sr": "Rat", "G": G, "out": {"S": out.S, "V": G["V"], "rules": rules}}


FUNCS = {"normalizerl": f_normalizerl, "sample": f_sample, "treesumrl": f_treesumrl, "pnextrl": f_pnextrl, "pnextseq": f_pnextseq, "mapbool": f_mapbool, "pnext": f_pnext, "ntw": f_ntw, "ntw_vs_parser": f_ntw_vs_parser, "lmcall": f_lmcall,"parse": f_parse, "prefix": f_prefix, "prefixgrammar": f_prefixgrammar, "derivative": f_derivative,
         "transform": f_transform, "treesum": f_treesum, "lang": f_lang, "mask": f_mask, "addeos": f_addeos,
         "normalize": f_normalize, "derivcall": f_derivcall, "explen": f_explen}


def resym(x, table):
    if isinstance(x, str):
        return table.get(x, x)
    if isinstance(x, list):
        return [resym(y, table) for y in x]
    if isinstance(x, dict):
        return {k: resym(v, table) for k, v in x.items()}
    return x


INT_SYMS = {"a": "<0>", "b": "<4>", "c": "<7>"}               # sparse token ids; 0 is falsy
FRESH_SYMS = {"a": "u03B1", "b": "u03B2", "c": "u03B3"}      # characters CPython does not cache: every occurrence of a
#                                                              token (in the grammar, in the query) is a distinct object


def variant_event(rng, p_int=0.07, p_fresh=0.07, skip=()):
    """event() that re-spells a fraction of the calls over other terminal symbols (same call, same answer)."""
    def ev(fn, args, site=None, feat=None, timeout=30):
        x = rng.random()
        if fn not in skip and x < p_int + p_fresh:
            table, tag = (INT_SYMS, "+int-symbols") if x < p_int else (FRESH_SYMS, "+uncached-symbols")
            args = resym(args, table)
            feat = (feat or "plain") + tag
        return event(fn, args, site=site, feat=feat, timeout=timeout)
    return ev


_TIMEOUTS = [0]


def event(fn, args, site=None, feat=None, timeout=30):
    """Run one real call; exceptions raised by the library are recorded (a call that raises returns
    nothing the specification can accept)."""
    call = {"fn": fn, "args": args}
    try:
        if _TIMEOUTS[0] >= 3:
            # this process has already recorded several calls that did not return (a change that makes the library
            # hang): the remaining calls get a short budget so that the run ends and the time-outs are reported
            timeout = min(timeout, 10)
        try:
            e = guarded(lambda: FUNCS[fn](args), timeout)
        except CallTimeout:
            if _TIMEOUTS[0] >= 3:
                raise
            # a slow machine must not look like a hanging library: one more attempt with four times the budget
            try:
                e = guarded(lambda: FUNCS[fn](args), 4 * timeout)
            except CallTimeout:
                _TIMEOUTS[0] += 1
                raise
    except OutOfModelRange:
        e = {"op": fn, "skip": "numeric-range"}      # (a weight beyond the model's number range: counted, not judged)
    except MachineryError:
        raise
    except CallTimeout:
        e = _skeleton(fn, args)
        e["exc"] = "Timeout"
    except Exception as ex:  # noqa: BLE001 - every library exception is an observation
        e = _skeleton(fn, args)
        e["exc"] = type(ex).__name__
        e["note"] = str(ex)[:200]
    e["call"] = call
    e["site"] = site or fn
    if feat:
        e["feat"] = feat
    for key in ("out", "G"):
        # a grammar the code produced whose weights exist only in floating point (Log semiring: no small rational
        # within 1e-12) cannot be evaluated by the exact oracle: counted, not judged
        if e.get("op") != "normalizerl" and isinstance(e.get(key), dict) and any(isinstance(r.get("w"), list) and len(r["w"]) == 3 for r in e[key].get("rules", [])):
            e["skip"] = "numeric-range"
    return e


def _skeleton(fn, a):
    e = {"op": fn, "sr": srmodel(a.get("sr", "Bool"))}
    for k in ("G", "s", "ctx", "L", "pre"):
        if k in a:
            e[k] = a[k]
    return e
