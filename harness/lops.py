"""Replayable operations on WeightedGraph (C15) and on the shipped weight types (C16)."""
import math
from fractions import Fraction

import usersemirings as us
from common import MachineryError
from project import OutOfModelRange
from gops import SR, srmodel, dec_w, guarded, CallTimeout
from project import enc_w
from genlm.grammar.linear import WeightedGraph

NODE_STYLES = ("int", "str", "tuple", "mixed")


def node(style, k):
    if style == "int":
        return k
    if style == "str":
        return f"v{k}"
    if style == "tuple":
        return ("v", k)
    return [k, f"v{k}", ("v", k), frozenset([k])][k % 4]


def build_graph(A, srname, style):
    R = SR[srname]
    G = WeightedGraph(R)
    for i, j, w in A["edges"]:
        G[node(style, i), node(style, j)] += dec_w(R, w)
    G.N |= {node(style, k) for k in range(A["n"])}
    return G


GRAPH_PRE = ("solve_right", "solve_left", "blocks", "buckets", "Blocks", "closure_scc", "closure_ref", "closure")


def warm_graph(G, pre, style):
    """Earlier queries on the SAME graph object: they must not change any later answer."""
    R = G.WeightType
    for name in pre or ():
        if name in ("solve_right", "solve_left"):
            b = R.chart()
            b[node(style, 0)] = R.one
            getattr(G, name)(b)
        elif name == "closure_scc":
            G.closure_scc_based()
        elif name == "closure_ref":
            G.closure_reference()
        elif name == "closure":
            G.closure()
        else:
            getattr(G, name)


def f_closure(a):
    G = build_graph(a["A"], a["sr"], a.get("style", "int"))
    warm_graph(G, a.get("pre"), a.get("style", "int"))
    inv = {node(a.get("style", "int"), k): k for k in range(a["A"]["n"])}
    how = a["how"]
    if how == "scc":
        K = G.closure_scc_based()
    elif how == "reference":
        K = G.closure_reference()
    elif how == "closure":
        C = G.closure()
        K = {(i, j): C[i, j] for (i, j) in C}
    else:
        raise ValueError(how)
    R = G.WeightType
    return {"op": "closure", "sr": srmodel(a["sr"]), "A": a["A"],
            "K": [[inv[i], inv[j], enc_w(R, w)] for (i, j), w in K.items() if w != R.zero]}


def f_solve(a):
    G = build_graph(a["A"], a["sr"], a.get("style", "int"))
    warm_graph(G, a.get("pre"), a.get("style", "int"))
    st = a.get("style", "int")
    inv = {node(st, k): k for k in range(a["A"]["n"])}
    R = G.WeightType
    b = R.chart()
    for j, w in a["b"]:
        b[node(st, j)] = dec_w(R, w)
    for side in a.get("before", ()):            # earlier solves with the SAME right-hand-side object
        G.solve_left(b) if side == "left" else G.solve_right(b)
    x = G.solve_left(b) if a["side"] == "left" else G.solve_right(b)
    return {"op": "solve", "sr": srmodel(a["sr"]), "A": a["A"], "b": a["b"], "side": a["side"],
            "x": [[inv[j], enc_w(R, w)] for j, w in x.items() if w != R.zero]}


def f_blocks(a):
    G = build_graph(a["A"], a["sr"], a.get("style", "int"))
    warm_graph(G, a.get("pre"), a.get("style", "int"))
    st = a.get("style", "int")
    inv = {node(st, k): k for k in range(a["A"]["n"])}
    blocks = G.blocks
    buckets = G.buckets
    for k, bl in enumerate(blocks):
        for x in bl:
            if buckets[x] != k:
                raise AssertionError("buckets disagrees with blocks")
    return {"op": "blocks", "sr": srmodel(a["sr"]), "A": a["A"], "blocks": [sorted(inv[x] for x in bl) for bl in blocks]}


def f_blocks_order(a):
    """scc_decomposition under an explicit visiting order (the roots and the successors of every node in a given
    order): a schedule of Tarjan.tla replayed into the real function."""
    from genlm.grammar.linear import scc_decomposition
    A = a["A"]
    inc = {v: [] for v in range(A["n"])}
    for i, j, _ in A["edges"]:
        if i not in inc[j]:
            inc[j].append(i)
    order = {v: sorted(inc[v], key=lambda x: a["succ_rank"][v].index(x)) for v in inc}
    blocks = list(scc_decomposition(lambda v: order[v], list(a["roots"])))
    return {"op": "blocks", "sr": srmodel(a["sr"]), "A": A, "blocks": [sorted(bl) for bl in blocks]}


# ---------------------------------------------------------------------------
# C16: the shipped weight types.  Abstraction: model value <-> concrete value of the class.


def conc(tp, v, fresh=True):
    """Concretise a model value as an instance of the shipped class tp (fresh=False: the class's own zero / one
    objects where the value is zero / one - the objects every accumulator in the library starts from)."""
    from genlm.grammar import semiring as S
    if not fresh and tp not in ("Float", "FloatF"):
        cls = getattr(S, tp)
        if absr(tp, cls.zero) == v:
            return cls.zero
        if absr(tp, cls.one) == v:
            return cls.one
    if tp == "Boolean":
        return S.Boolean(bool(v)) if fresh else (S.Boolean.one if v else S.Boolean.zero)
    q = lambda r: Fraction(r[0], r[1])
    if tp == "Float":
        return q(v)
    if tp == "FloatF":
        return float(q(v))
    if tp == "Real":
        return S.Real(q(v))
    if tp == "MaxTimes":
        return S.MaxTimes(q(v))
    if tp == "MaxPlus":
        return S.MaxPlus(-math.inf) if v == [0] else S.MaxPlus(v[1])
    if tp == "Log":
        x = q(v)
        return S.Log(-math.inf) if x == 0 else S.Log(math.log(x))
    if tp in ("Expectation", "Entropy"):
        cls = getattr(S, tp)
        p, r = q(v[0]), q(v[1])
        if not fresh:
            if (p, r) == (0, 0):
                return cls.zero
            if (p, r) == (1, 0):
                return cls.one
        return cls(p, r) if tp == "Expectation" else cls(float(p), float(r)) if False else cls(p, r)
    raise ValueError(tp)


def absr(tp, x):
    """Abstract a concrete value back to the model encoding."""
    from project import enc_rat
    if tp == "Boolean":
        return int(bool(x.score))
    if tp in ("Float", "FloatF"):
        return enc_rat(x)
    if tp in ("Real", "MaxTimes"):
        return enc_rat(x.score)
    if tp == "MaxPlus":
        s = x.score
        return [0] if s == -math.inf else [1, int(s)] if float(s) == int(s) else (_ for _ in ()).throw(MachineryError("MaxPlus"))
    if tp == "Log":
        return enc_rat(0 if x.score == -math.inf else math.exp(x.score))
    if tp in ("Expectation", "Entropy"):
        return [enc_rat(x.score[0]), enc_rat(x.score[1])]
    raise ValueError(tp)


MODEL_SR = {"Boolean": "Bool", "Float": "Rat", "FloatF": "Rat", "Real": "Rat", "MaxTimes": "MaxTimes", "MaxPlus": "MaxPlus",
            "Log": "Rat", "Expectation": "Expect", "Entropy": "Expect"}


def f_semiring(a):
    from genlm.grammar import semiring as S
    tp = a["type"]
    fn = a["fn"]
    cls = {"Float": S.Float, "FloatF": S.Float}.get(tp) or getattr(S, tp)
    e = {"op": "semiring", "sr": MODEL_SR[tp], "fn": fn, "type": tp}
    if fn in ("zero", "one"):
        e["res"] = absr(tp, getattr(cls, fn))
        return e
    x = conc(tp, a["a"], a.get("fresh", True))
    e["a"] = a["a"]
    consts = (absr(tp, cls.zero), absr(tp, cls.one))
    if fn == "star":
        r = cls.star(x)
    else:
        y = conc(tp, a["b"], a.get("fresh2", True))
        e["b"] = a["b"]
        if fn in ("iadd", "imul"):
            # the in-place forms that accumulators use (`total += w`, `W *= v`): same value, and neither the operands
            # nor the shared zero / one constants may be changed by them
            xb, yb = absr(tp, x), absr(tp, y)
            r = x
            if fn == "iadd":
                r += y
            else:
                r *= y
            e["fn"] = "add" if fn == "iadd" else "mul"
            if absr(tp, y) != yb or (r is not x and absr(tp, x) != xb) or (absr(tp, cls.zero), absr(tp, cls.one)) != consts:
                raise AssertionError("an in-place operator changed an operand or a shared constant")
            if not a.get("fresh", True) and (absr(tp, cls.zero), absr(tp, cls.one)) != consts:
                raise AssertionError("a shared constant was changed")
        else:
            r = x + y if fn == "add" else x * y
    e["res"] = absr(tp, r)
    if (absr(tp, cls.zero), absr(tp, cls.one)) != consts:
        raise AssertionError("the operation changed the semiring's zero or one")
    return e


def f_chart(a):
    """Chart algebra (chart.py): +, *, product, trim, sum, normalize, project, filter."""
    R = SR[a["sr"]]
    mkc = lambda c: R.chart({k: dec_w(R, w) for k, w in c})
    enc = lambda ch: [[k, enc_w(R, v)] for k, v in ch.items()]
    A = mkc(a["a"])
    fn = a["fn"]
    e = {"op": "chart", "sr": srmodel(a["sr"]), "fn": fn, "a": a["a"]}
    if fn in ("add", "mul"):
        B = mkc(a["b"])
        e["b"] = a["b"]
        e["out"] = enc(A + B if fn == "add" else A * B)
    elif fn == "product":
        e["ks"] = a["ks"]
        e["res"] = enc_w(R, A.product(a["ks"]))
    elif fn == "trim":
        e["out"] = enc(A.trim())
    elif fn == "sum":
        v = A.sum()
        e["res"] = enc_w(R, v)
    elif fn == "normalize":
        e["out"] = enc(A.normalize())
    elif fn == "project":
        m = dict(a["map"])
        e["map"] = a["map"]
        e["out"] = enc(A.project(lambda k: m[k]))
    elif fn == "filter":
        keep = set(a["keep"])
        e["keep"] = a["keep"]
        e["out"] = enc(A.filter(lambda k: k in keep))
    else:
        raise ValueError(fn)
    return e


FUNCS = {"chart": f_chart, "closure": f_closure, "solve": f_solve, "blocks": f_blocks, "semiring": f_semiring, "blocks_order": f_blocks_order}


def event(fn, args, site=None, feat=None, timeout=30):
    call = {"fn": fn, "args": args}
    try:
        try:
            e = guarded(lambda: FUNCS[fn](args), timeout)
        except CallTimeout:
            # a slow machine must not look like a hanging library: one more attempt with four times the budget
            e = guarded(lambda: FUNCS[fn](args), 4 * timeout)
    except OutOfModelRange:
        e = {"op": fn, "skip": "numeric-range"}      # (a weight beyond the model's number range: counted, not judged)
    except MachineryError:
        raise
    except CallTimeout:
        e = {"op": fn, "sr": srmodel(args.get("sr", "Bool")), "exc": "Timeout"}
    except Exception as ex:  # noqa: BLE001
        e = {"op": fn if fn != "semiring" else "semiring", "sr": srmodel(args.get("sr", "Bool")), "exc": type(ex).__name__,
             "note": str(ex)[:200]}
    e["call"] = call
    e["site"] = site or fn
    if feat:
        e["feat"] = feat
    return e


def rand_graph(rng, srname, n, m, contractive=False, acyclic=False, leq1=False, signed=False):
    from families import weights_for
    R = SR[srname]
    if contractive:
        ws = [[1, 4], [1, 8], [1, 8]]
    elif leq1:
        ws = [[1, 2], [1, 1], [1, 4], [1, 1]]          # max-times: no cycle gains, some cycles weigh exactly one
    else:
        ws = [enc_w(R, us.mk(R, w)) for w in weights_for(R)]
    edges = []
    out = {}
    for _ in range(m):
        i, j = rng.randrange(n), rng.randrange(n)
        if acyclic:
            if i == j:
                continue
            i, j = min(i, j), max(i, j)
        if contractive and out.get(i, 0) >= 3:
            continue
        out[i] = out.get(i, 0) + 1
        edges.append([i, j, rng.choice(ws)])
    if signed and edges:
        # signed real weights: an entry that is written, cancelled to exactly zero (and sometimes written again),
        # next to a real edge in the opposite direction
        i, j, w = rng.choice(edges)
        edges.append([i, j, [-w[0], w[1]]])
        if rng.random() < 0.5:
            edges.append([i, j, rng.choice(ws)])
        if i != j:
            edges.append([j, i, rng.choice(ws)])
    return {"n": n, "edges": edges}


def gfeat(A):
    adj = {}
    for i, j, _ in A["edges"]:
        adj.setdefault(i, set()).add(j)
    self_loop = any(i == j for i, j, _ in A["edges"])

    def reach(s):
        seen, st = set(), [s]
        while st:
            x = st.pop()
            for y in adj.get(x, ()):
                if y not in seen:
                    seen.add(y)
                    st.append(y)
        return seen
    big = any(i in reach(j) and i != j for i in adj for j in adj[i])
    return "+".join(x for x in ["selfloop" if self_loop else "", "cycle" if big else ""] if x) or "acyclic"
