"""bin/check <property> quick|thorough [--replay <path>]

exit 0: property held on everything explored
exit 1: VIOLATION property=<id> replay=<path>
exit 2: the machinery failed (never a verdict)
"""
import importlib
import json
import os
import subprocess
import sys
import time
import traceback

sys.path.insert(0, os.path.dirname(os.path.abspath(__file__)))
import covhook  # noqa: E402
covhook.start()
from common import MachineryError, Report, VERIF, fresh, validate_trace, NCPU  # noqa: E402

HARNESS_ONLY = ("call", "feat", "expect", "site", "note", "skip", "fname", "hashseed", "_verdict", "derived")


def run_generators(pid, tier, seed, nproc, hashseeds, extra_env=None):
    """Run props.<pid>.generate in nproc sub-processes (one PYTHONHASHSEED each); return events."""
    d = fresh("gen")
    procs = []
    for i in range(nproc):
        out = d / f"ev{i}.ndjson"
        env = dict(os.environ)
        env["PYTHONHASHSEED"] = str(hashseeds[i % len(hashseeds)])
        env["PYTHONWARNINGS"] = "ignore"
        env.update(extra_env or {})
        cmd = [sys.executable, os.path.join(os.path.dirname(__file__), "gen.py"), pid, tier, str(seed), str(i),
               str(nproc), str(out)]
        procs.append((subprocess.Popen(cmd, env=env, stdout=subprocess.PIPE, stderr=subprocess.STDOUT, text=True), out))
    events = []
    for p, out in procs:
        o, _ = p.communicate()
        if p.returncode != 0:
            raise MachineryError(f"generator failed rc={p.returncode}:\n{o[-3000:]}")
        with open(out) as fh:
            for line in fh:
                events.append(json.loads(line))
        out.unlink()
    return events


CONFORMANCE_ONLY = {"maxtokens-conformance", "threshold-conformance", "coarsen-conformance", "detsize-conformance"}


def judge(report, module, events, chunk=60000, timeout=1500, relevant=None):
    """Validate events with Trace<module>; classify rejects; returns number of rejected events.

    events carry harness-only fields: call (for replay), feat (non-triviality key), expect ('reject' for
    rejection self-tests), site (call site name used in violation keys).
    """
    skipped = [e for e in events if e.get("skip")]
    for e in skipped:
        k = "events_not_judged:" + e["skip"]
        report.extra[k] = report.extra.get(k, 0) + 1
    events = [e for e in events if not e.get("skip")]
    for i, e in enumerate(events):
        e["tid"] = i
    nrej = 0
    summary = {}
    deferred = []
    for lo in range(0, len(events), chunk):
        part = events[lo:lo + chunk]
        slim = [{k: v for k, v in e.items() if k not in HARNESS_ONLY} for e in part]
        rejects, res = validate_trace(module, slim, timeout=timeout)
        report.add_tlc(res, f"trace validation {module} ({len(part)} events)")
        for e in part:
            cl = rejects.get(e["tid"])
            if cl and "OUTDOM" in cl and e.get("derived") and e.get("expect") != "reject":
                # the INPUT of this call is the output the code gave for an earlier call of the chain (already judged
                # there); if that output is outside the oracle's exact domain this link is not judged
                k = "events_not_judged:input-taken-from-an-earlier-result-outside-the-exact-domain"
                report.extra[k] = report.extra.get(k, 0) + 1
                e["_verdict"] = "skipped"
                continue
            if cl and "OUTSKIP" in cl and e.get("expect") != "reject":
                k = "events_not_judged:result-outside-the-oracles-exact-domain"
                report.extra[k] = report.extra.get(k, 0) + 1
                e["_verdict"] = "skipped"
                continue
            if cl and e.get("expect") != "reject" and cl & CONFORMANCE_ONLY:
                for c in cl & CONFORMANCE_ONLY:   # behaviour the model follows but no listed property states
                    report.extra.setdefault("conformance_divergences_not_violations", {}).setdefault(c, 0)
                    report.extra["conformance_divergences_not_violations"][c] += 1
                cl = cl - CONFORMANCE_ONLY
            e["_verdict"] = "rejected" if cl else "accepted"
            if cl and relevant is not None and e.get("expect") != "reject":
                if "OUTDOM" in cl:
                    deferred.append(f"input outside the oracle's exact domain: {json.dumps(e)[:800]}")
                    e["_verdict"] = "skipped"
                    continue
                other = cl - relevant   # clauses judged by other checks, or conformance-only observations
                for c in other:
                    report.extra.setdefault("clauses_not_counted_as_violation", {}).setdefault(c, 0)
                    report.extra["clauses_not_counted_as_violation"][c] += 1
                cl = cl & relevant
            if e.get("expect") == "reject":
                if not cl:
                    raise MachineryError(f"rejection self-test was accepted: {json.dumps(e)[:600]}")
                report.selftests += 1
                continue
            report.traces += 1
            if cl:
                if "OUTDOM" in cl:
                    deferred.append(f"input outside the oracle's exact domain: {json.dumps(e)[:800]}")
                    e["_verdict"] = "skipped"
                    report.traces -= 1
                    continue
                if "ORACLE" in cl:
                    raise MachineryError(f"the specification's oracle disagrees with its cross-check: {json.dumps(e)[:800]}")
                nrej += 1
                site = e.get("site", e.get("op"))
                k2 = (site, e.get("sr"), tuple(sorted(cl)), e.get("exc"))
                summary[k2] = summary.get(k2, 0) + 1
                key = f"{e['op']}:{site}:{'+'.join(sorted(cl))}:{json.dumps(e.get('call'), sort_keys=True)}"
                desc = f"{e['op']} at {site}: spec rejects clause(s) {sorted(cl)}; input={json.dumps(e.get('call'))[:400]} observed={json.dumps({k: e[k] for k in e if k in ('res', 'exc', 'keys', 'dist', 'chart', 'entries')})[:300]}"
                report.violation(key, desc, {"module": module, "event": e})
    if deferred:
        # An input the generator built (through library calls) lies outside the oracle's exact domain.  On correct code
        # that is a slip of the generator (exit 2).  If the same run already holds violations - observations of the real
        # code that the specification rejects - those stand on their own and are reported; the lines are not judged.
        if not report.violations:
            raise MachineryError(deferred[0])
        report.extra["events_not_judged:input-outside-the-exact-domain-in-a-run-with-violations"] = len(deferred)
    if summary and os.environ.get("VERIF_DEBUG"):
        for k2, n in sorted(summary.items(), key=str):
            print("  rejects:", n, k2)
    return nrej


def corrupt_value(r):
    """A recorded weight that is certainly different from r (also beyond the fixed-point tolerance)."""
    if isinstance(r, int):
        return 0 if r else 1
    if len(r) == 3:
        return [r[0] + 5000, r[1], 0]
    if len(r) == 1:
        return [1, 7]
    if isinstance(r[0], list):
        return [corrupt_value(r[0]), r[1]]
    return [r[0] + 5 * r[1], r[1]]


def selftest_numeric(events, rng, ops=("parse", "prefix"), field="res", n=12):
    """Corrupt one recorded numeric field: the trace specification must reject the line."""
    import copy
    out = []
    cands = [e for e in events if "exc" not in e and e["op"] in ops and field in e]
    rng.shuffle(cands)
    for e in cands[:n]:
        c = copy.deepcopy(e)
        c["expect"] = "reject"
        c[field] = corrupt_value(c[field])
        out.append(c)
    return out


def standard_run(report, pid, module, tier, seed, selftests, extra_events=(), nproc=16, rule="", trivial=("plain",),
                 relevant=None, extra_env=None,
                 sample_keys=("op", "sr", "G", "in", "s", "ctx", "res", "keys", "site", "tfm")):
    import random
    hashseeds = [0, 1, 2, 3] if tier == "quick" else list(range(32))
    events = run_generators(pid, tier, seed, nproc, hashseeds, extra_env=extra_env)
    events += list(extra_events)
    for e in events:
        report.case(e, trivial)
    judge(report, module, events, relevant=relevant, timeout=1500 if tier == "quick" else 5000)
    # rejection self-tests are corruptions of lines the specification ACCEPTED (so that a corruption can never
    # accidentally repair a rejected line); they are validated in a second pass
    st = selftests([e for e in events if e.get("_verdict") == "accepted"], random.Random(seed))
    if not st:
        raise MachineryError("no rejection self-test could be built from this run's events")
    judge(report, module, st, relevant=relevant)
    seen = set()
    for e in events:
        if e.get("site") not in seen and "exc" not in e:
            seen.add(e.get("site"))
            report.sample({k: e[k] for k in sample_keys if k in e}, cap=8)
    report.rule = rule
    return events


def generic_replay(report, rp, funcs_event, relevant=None):
    """Re-run the recorded call against the current tree (same PYTHONHASHSEED) and judge it again."""
    e = rp["replay"]["event"]
    hs = str(e.get("hashseed", "0") or "0")
    if os.environ.get("PYTHONHASHSEED") != hs:
        env = dict(os.environ, PYTHONHASHSEED=hs)
        return subprocess.call([sys.executable] + sys.argv, env=env)
    new = funcs_event(e["call"]["fn"], e["call"]["args"], site=e.get("site"))
    print("replayed observation:", json.dumps({k: new[k] for k in new if k in ("res", "exc", "note", "keys", "dist", "chart", "entries")})[:500])
    judge(report, rp["replay"]["module"], [new], relevant=relevant)
    return report.finish()


def main(argv):
    if len(argv) < 3:
        print(__doc__)
        return 2
    pid, tier = argv[1], argv[2]
    seed = int(os.environ.get("VERIF_SEED", "0") or 0)
    tier = os.environ.get("VERIF_TIER", tier) if tier not in ("quick", "thorough") else tier
    mod = importlib.import_module(f"props.{pid.lower()}")
    report = Report(pid, tier, seed)
    try:
        if "--replay" in argv:
            path = argv[argv.index("--replay") + 1]
            rp = json.loads(open(path).read())
            return mod.replay(report, rp)
        mod.run(report, tier, seed)
        return report.finish()
    except MachineryError as ex:
        print(f"MACHINERY-FAILURE property={pid}: {ex}")
        if report.violations:
            # violations already established on the real code stand on their own: report them (exit 1)
            report.extra["machinery_failure_after_violations"] = str(ex)[:300]
            return report.finish()
        return 2
    except Exception:
        traceback.print_exc()
        print(f"MACHINERY-FAILURE property={pid}: unexpected exception")
        return 2


if __name__ == "__main__":
    sys.exit(main(sys.argv))
