"""Replayable automaton / transducer / composition operations on the real code (C09-C13, C17)."""
import itertools
from fractions import Fraction

import usersemirings as us
from common import MachineryError
from project import OutOfModelRange
from gops import SR, srmodel, dec_w, unt, ustr, guarded, CallTimeout, build, coerce, _skeleton  # noqa: F401
from project import enc_w, tname, seq, cfg_proj
from genlm.grammar.wfsa.base import WFSA as BaseWFSA, EPSILON
from genlm.grammar.wfsa.field_wfsa import WFSA as FieldWFSA
from genlm.grammar.fst import FST

STATE_STYLES = ("int", "str", "tuple", "mixed", "pair1", "pair0")
WFSA_PRE = ("epsremove", "call", "total_weight", "trim", "reverse", "renumber", "E", "G", "forward", "backward",
            "kleene_plus", "star", "add_self", "mul_self")


def st_name(style, k):
    if style == "int":
        return k
    if style == "str":
        return f"q{k}"
    if style == "tuple":
        return ("s", k)
    if style == "pair1":
        return (1, k)          # looks like the tags a disjoint-union construction would add
    if style == "pair0":
        return (0, k)
    return [k, f"q{k}", ("s", k), frozenset([k])][k % 4]


def build_wfsa(M, srname, style="int", cls="base"):
    R = SR[srname]
    m = (BaseWFSA if cls == "base" else FieldWFSA)(R)
    for k in range(M["n"]):
        m.add_state(st_name(style, k))
    for q, w in M["I"]:
        m.add_I(st_name(style, q), dec_w(R, w))
    for q, w in M["F"]:
        m.add_F(st_name(style, q), dec_w(R, w))
    for p, a, q, w in M["arcs"]:
        m.add_arc(st_name(style, p), unt(a), st_name(style, q), dec_w(R, w))
    return m


def warm_wfsa(m, pre):
    """Earlier queries on the SAME automaton object (cached properties): they must not change later answers."""
    for name in pre or ():
        if name == "call":
            m(())
        elif name == "total_weight":
            m.total_weight()
        elif name in ("kleene_plus", "star"):      # building a closure of the automaton must leave the automaton alone
            getattr(m, name)()
        elif name == "add_self":
            m + m
        elif name == "mul_self":
            m * m
        else:
            getattr(m, name)
    return m


def build_fst(T, srname, style="int"):
    R = SR[srname]
    m = FST(R)
    for k in range(T["n"]):
        m.add_state(st_name(style, k))
    for q, w in T["I"]:
        m.add_I(st_name(style, q), dec_w(R, w))
    for q, w in T["F"]:
        m.add_F(st_name(style, q), dec_w(R, w))
    keys = [(p, a, b, q) for p, a, b, q, w in T["arcs"]]
    use_set = T.get("ctor") == "set" and len(set(keys)) == len(keys)     # set_arc overwrites: only without parallel arcs
    for p, a, b, q, w in T["arcs"]:
        (m.set_arc if use_set else m.add_arc)(st_name(style, p), (unt(a), unt(b)), st_name(style, q), dec_w(R, w))
    return m


def _index(m):
    names = {}
    for q in sorted(m.states, key=lambda x: (type(x).__name__, repr(x))):
        names[q] = len(names)
    return names


def wfsa_proj(m, expect_R=None):
    nm = _index(m)
    R = m.R
    if expect_R is not None and R is not expect_R:
        from project import WrongSemiring
        raise WrongSemiring(f"the result is an automaton over {getattr(R, '__name__', R)}, not over {getattr(expect_R, '__name__', expect_R)}")
    out = {"n": len(nm),
           "I": [[nm[q], enc_w(R, w)] for q, w in m.I],
           "F": [[nm[q], enc_w(R, w)] for q, w in m.F],
           "arcs": []}
    for i, a, j, w in m.arcs():
        if w == R.zero:
            continue
        if isinstance(a, tuple):
            raise MachineryError(f"automaton arc with a pair label {a!r}")
        out["arcs"].append([nm[i], tname(a), nm[j], enc_w(R, w)])
    return out


def fst_proj(m):
    nm = _index(m)
    R = m.R
    out = {"n": len(nm),
           "I": [[nm[q], enc_w(R, w)] for q, w in m.I],
           "F": [[nm[q], enc_w(R, w)] for q, w in m.F],
           "arcs": []}
    for i, ab, j, w in m.arcs():
        if w == R.zero:
            continue
        if not (isinstance(ab, tuple) and len(ab) == 2):
            raise ValueError(f"transducer arc label {ab!r} is not an input:output pair")
        out["arcs"].append([nm[i], tname(ab[0]), tname(ab[1]), nm[j], enc_w(R, w)])
    return out


# ---------------------------------------------------------------------------
# automata


def f_wcall(a):
    m = warm_wfsa(build_wfsa(a["M"], a["sr"], a.get("style", "int"), a.get("cls", "base")), a.get("pre"))
    v = m(ustr(a["s"]))
    return {"op": "wcall", "sr": srmodel(a["sr"]), "M": a["M"], "s": a["s"], "res": enc_w(m.R, coerce(m.R, v))}


def f_wtotal(a):
    m = warm_wfsa(build_wfsa(a["M"], a["sr"], a.get("style", "int"), a.get("cls", "base")), a.get("pre"))
    v = m.total_weight()
    return {"op": "wtotal", "sr": srmodel(a["sr"]), "M": a["M"], "res": enc_w(m.R, coerce(m.R, v))}


UNARY = {
    # name: (callable, spec identity, postconditions)
    "epsremove": (lambda m: m.epsremove, "same", ["noeps"]),
    "reverse": (lambda m: m.reverse, "reverse", []),
    "star": (lambda m: m.star(), "star", []),
    "kleene_plus": (lambda m: m.kleene_plus(), "plus", []),
    "renumber": (lambda m: m.renumber, "same", []),
    "rename": (lambda m: m.rename(lambda q: ("r", q)), "same", []),
    "spawn_all": (lambda m: m.spawn(keep_init=True, keep_arcs=True, keep_stop=True), "same", []),
    "trim": (lambda m: m.trim, "same", ["trimmed"]),
    "trim_vals": (lambda m: m.trim_vals, "same", ["trimmed"]),
    "push": (lambda m: m.push, "same", ["stochastic"]),
    "determinize": (lambda m: m.determinize, "same", ["deterministic"]),
    "min_det": (lambda m: m.min_det, "same", ["deterministic", "trimmed"]),
    "min": (lambda m: m.min, "same", []),
    # trimming the RESULT of another operation (push and trim leave explicit zero-weight initial entries behind)
    "push.trim": (lambda m: m.push.trim, "same", ["trimmed"]),
    "push.trim_vals": (lambda m: m.push.trim_vals, "same", ["trimmed"]),
    "trim.trim": (lambda m: m.trim.trim, "same", ["trimmed"]),
    "trim_vals.trim": (lambda m: m.trim_vals.trim, "same", ["trimmed"]),
    "epsremove.trim": (lambda m: m.epsremove.trim, "same", ["trimmed", "noeps"]),
    "reverse.trim": (lambda m: m.reverse.trim, "reverse", ["trimmed"]),
}
BINARY = {"add": lambda x, y: x + y, "mul": lambda x, y: x * y}


def f_wop(a):
    m = warm_wfsa(build_wfsa(a["A"], a["sr"], a.get("style", "int"), a.get("cls", "base")), a.get("pre"))
    name = a["fn"]
    e = {"op": "wop", "sr": srmodel(a["sr"]), "A": a["A"], "sigma": a["sigma"], "L": a["L"]}
    if name == "multiplicity":                     # field automata: m . A = lift(eps, m) * A
        out = m.multiplicity(dec_w(m.R, a["m"]))
        e["fn"], e["posts"], e["m"] = "scale", [], a["m"]
    elif name == "threshold":                      # field automata: drop entries below an absolute threshold
        out = m.threshold(dec_w(m.R, a["t"]))
        e["fn"], e["posts"], e["t"] = "threshold", [], a["t"]
    elif name in UNARY:
        fn, ident, posts = UNARY[name]
        out = fn(m)
        e["fn"], e["posts"] = ident, posts
        if name == "determinize" and srmodel(a["sr"]) == "Rat":
            e["pushed"] = wfsa_proj(m.epsremove.push)       # the machine the subset construction runs on (Determinize.tla)
    else:
        m2 = build_wfsa(a["B"], a["sr"], a.get("style2", "int"), a.get("cls", "base"))
        out = BINARY[name](m, m2)
        e["fn"], e["posts"], e["B"] = name, [], a["B"]
    e["out"] = wfsa_proj(out, expect_R=m.R)
    e["fname"] = name
    # the library's own evaluation of the machine it built (through its epsilon removal), on a few strings
    calls = []
    strs = [s for n in range(min(a["L"], 2) + 1) for s in itertools.product(a["sigma"], repeat=n)]
    for s in strs[:: max(1, len(strs) // 4)][:4]:
        try:
            calls.append([list(s), enc_w(m.R, coerce(m.R, out(ustr(s))))])
        except Exception:  # noqa: BLE001 - (a divergent epsilon cycle: the structural judgement above still applies)
            pass
    if calls:
        e["calls"] = calls
    return e


def f_wlang(a):
    """Constructors: the language of the constructed automaton is exactly the specified one."""
    R = SR[a["sr"]]
    cls = BaseWFSA if a.get("cls", "base") == "base" else FieldWFSA
    k = a["ctor"]
    one = enc_w(R, R.one)
    if k == "lift":
        w = dec_w(R, a["w"])
        m = cls.lift(unt(a["x"]), w, R=R)
        entries = [[[a["x"]] if a["x"] != "" else [], a["w"]]]
    elif k == "from_string":
        w = dec_w(R, a["w"]) if a.get("w") is not None else None
        m = cls.from_string(ustr(a["xs"]), R, w=w)
        entries = [[a["xs"], a["w"] if a.get("w") is not None else one]]
    elif k == "from_strings":
        m = cls.from_strings([ustr(x) for x in a["Xs"]], R)
        uniq = []
        for x in a["Xs"]:
            if x not in uniq:
                uniq.append(x)
        entries = [[x, one] for x in uniq]
    elif k == "zero":
        m = build_wfsa(a["M"], a["sr"]).zero
        entries = []
    elif k == "one":
        m = build_wfsa(a["M"], a["sr"]).one
        entries = [[[], one]]
    else:
        raise ValueError(k)
    return {"op": "wlang", "sr": srmodel(a["sr"]), "M": wfsa_proj(m, expect_R=R), "sigma": a["sigma"], "L": a["L"],
            "entries": [x for x in entries if len(x[0]) <= a["L"] and x[1] != enc_w(R, R.zero)]}


def f_tocfg(a):
    m = build_wfsa(a["M"], a["sr"], a.get("style", "int"))
    g = m.to_cfg(recursion=a["recursion"])
    G, _ = cfg_proj(g)
    return {"op": "tocfg", "sr": srmodel(a["sr"]), "M": a["M"], "G": G, "sigma": a["sigma"], "L": a["L"]}


def _byte_tables(symbols):
    cps = [[tname(x), [ord(c) for c in x]] for x in symbols]
    bs = sorted({b for x in symbols for b in x.encode("utf-8")})
    return cps, [[tname(b), b] for b in bs]


def f_tobytes(a):
    m = build_wfsa(a["M"], a["sr"], a.get("style", "int"))
    out = m.to_bytes()
    syms = sorted({x for x in m.alphabet if x != EPSILON})
    cps, bts = _byte_tables(syms)
    e = {"op": "tobytes", "sr": srmodel(a["sr"]), "M": a["M"], "out": wfsa_proj(out, expect_R=m.R), "sigma": [tname(x) for x in syms],
         "cps": cps, "bytes": bts, "L": a["L"]}
    # m.to_bytes()(bs): the library's own evaluation of the byte-level machine, on the encodings of a few strings
    calls = []
    strs = [s for n in range(3) for s in itertools.product(syms, repeat=n)]
    for s in strs[:: max(1, len(strs) // 5)][:5]:
        bs = list("".join(s).encode("utf-8"))
        try:
            calls.append([[tname(b) for b in bs], enc_w(m.R, coerce(m.R, out(tuple(bs))))])
        except Exception:  # noqa: BLE001
            pass
    if calls:
        e["calls"] = calls
    return e


def f_gtobytes(a):
    g = build(a["G"], a["sr"], a.get("names", "str"))
    out = g.to_bytes()
    O, _ = cfg_proj(out)
    syms = sorted(g.V)
    cps, bts = _byte_tables(syms)
    return {"op": "gtobytes", "sr": srmodel(a["sr"]), "G": a["G"], "out": O, "sigma": [tname(x) for x in syms],
            "cps": cps, "bytes": bts, "L": a["L"]}


# ---------------------------------------------------------------------------
# transducers


def f_tcall(a):
    t = build_fst(a["T"], a["sr"], a.get("style", "int"))
    v = t(ustr(a["x"]), ustr(a["y"]))
    return {"op": "tcall", "sr": srmodel(a["sr"]), "T": a["T"], "x": a["x"], "y": a["y"], "res": enc_w(t.R, coerce(t.R, v))}


def f_tcompose(a):
    f = build_fst(a["A"], a["sr"], a.get("style", "int"))
    g = build_fst(a["B"], a["sr"], a.get("style2", "int"))
    out = f @ g
    return {"op": "tcompose", "sr": srmodel(a["sr"]), "A": a["A"], "B": a["B"], "out": fst_proj(out),
            "sigmaA": a["sigmaA"], "sigmaM": a["sigmaM"], "sigmaB": a["sigmaB"], "L": a["L"]}


def f_tsame(a):
    k = a["fn"]
    R = SR[a["sr"]]
    e = {"op": "tsame", "sr": srmodel(a["sr"]), "fn": k, "sigmaA": a["sigmaA"], "sigmaB": a["sigmaB"], "L": a["L"]}
    if k == "diag":
        m = build_wfsa(a["M"], a["sr"])
        e["M"] = a["M"]
        e["out"] = fst_proj(FST.diag(m))
        return e
    if k == "from_string":
        out = FST.from_string(ustr(a["xs"]), R)
        e["fn"] = "pairs"
        e["pairs"] = [[a["xs"], a["xs"]]]
        e["out"] = fst_proj(out)
        return e
    if k == "from_pairs":
        out = FST.from_pairs([(ustr(x), ustr(y)) for x, y in a["pairs"]], R)
        for x, y in a["pairs"][:1]:
            out(ustr(x), ustr(y))        # the library's own evaluation of the constructed transducer
            out.T
            out.project(0)
        e["fn"] = "pairs"
        e["pairs"] = a["pairs"]
        e["out"] = fst_proj(out)
        return e
    t = build_fst(a["T"], a["sr"], a.get("style", "int"))
    e["T"] = a["T"]
    if k == "prune":
        e["keepA"], e["keepB"] = a["keepA"], a["keepB"]
        e["out"] = fst_proj(t.prune_to_alphabet({unt(x) for x in a["keepA"]}, {unt(x) for x in a["keepB"]}))
    elif k == "transpose":
        e["out"] = fst_proj(t.T)
    elif k in ("project0", "project1"):
        e["out"] = wfsa_proj(t.project(int(k[-1])))
    elif k == "xsec_in":
        e["fix"] = a["fix"]
        e["out"] = wfsa_proj(t(ustr(a["fix"]), None))
    elif k == "xsec_out":
        e["fix"] = a["fix"]
        e["out"] = wfsa_proj(t(None, ustr(a["fix"])))
    elif k == "coarsen":
        # states merged pairwise, labels kept: a Boolean over-approximation of the relation's support
        idx = {st_name(a.get("style", "int"), q): q for q in range(a["T"]["n"])}
        e["out"] = fst_proj(t.coarsen(lambda q: ("c", idx[q] // 2), lambda x: x, lambda y: y))
    else:
        raise ValueError(k)
    return e


# ---------------------------------------------------------------------------
# grammar o transducer


def f_gcompose(a):
    g = build(a["G"], a["sr"], a.get("names", "str"))
    how = a["how"]
    if how in ("cfg@fst", "fst.T@cfg"):
        t = build_fst(a["T"], a["sr"], a.get("style", "int"))
        out = (g @ t) if how == "cfg@fst" else (t.T @ g)
        T = a["T"]
    elif how == "cfg@wfsa":
        m = build_wfsa(a["M"], a["sr"], a.get("style", "int"))
        out = g @ m
        T = fst_proj(FST.diag(m))
    elif how == "cfg@string":
        out = g @ ustr(a["xs"])
        T = fst_proj(FST.from_string(ustr(a["xs"]), g.R))
    else:
        raise ValueError(how)
    O, _ = cfg_proj(out)
    return {"op": "gcompose", "sr": srmodel(a["sr"]), "G": a["G"], "T": T, "out": O, "sigmaB": a["sigmaB"], "L": a["L"]}


def f_gcall(a):
    """(cfg @ fst)(ys) through the library's own parser, and (cfg @ xs).treesum()."""
    g = build(a["G"], a["sr"], a.get("names", "str"))
    if a["how"] == "treesum@string":
        xs = ustr(a["xs"])
        v = (g @ xs).treesum()
        T = fst_proj(FST.from_string(xs, g.R))
        # total weight of G o xs = sum over outputs y: only y = xs can be produced
        return {"op": "gcall", "sr": srmodel(a["sr"]), "G": a["G"], "T": T, "y": a["xs"], "res": enc_w(g.R, coerce(g.R, v))}
    t = build_fst(a["T"], a["sr"], a.get("style", "int"))
    v = (g @ t)(ustr(a["y"]))
    return {"op": "gcall", "sr": srmodel(a["sr"]), "G": a["G"], "T": a["T"], "y": a["y"], "res": enc_w(g.R, coerce(g.R, v))}


def f_truncate(a):
    g = build(a["G"], a["sr"], a.get("names", "str"))
    out = g.truncate_length(a["n"])
    O, _ = cfg_proj(out)
    return {"op": "truncate", "sr": srmodel(a["sr"]), "G": a["G"], "out": O, "n": a["n"], "sigma": a["G"]["V"], "L": a["L"]}


FUNCS = {"wcall": f_wcall, "wtotal": f_wtotal, "wop": f_wop, "wlang": f_wlang, "tocfg": f_tocfg, "tobytes": f_tobytes,
         "gtobytes": f_gtobytes, "tcall": f_tcall, "tcompose": f_tcompose, "tsame": f_tsame, "gcompose": f_gcompose,
         "gcall": f_gcall, "truncate": f_truncate}


_TIMEOUTS = [0]


def event(fn, args, site=None, feat=None, timeout=30):
    call = {"fn": fn, "args": args}
    try:
        if _TIMEOUTS[0] >= 3:
            # this process has already recorded several calls that did not return (a change that makes the library
            # hang): the remaining calls get a short budget so that the run ends and the time-outs are reported
            timeout = min(timeout, 10)
        try:
            e = guarded(lambda: FUNCS[fn](args), timeout)
        except CallTimeout:
            if _TIMEOUTS[0] >= 3:
                raise
            # a slow machine must not look like a hanging library: one more attempt with four times the budget
            try:
                e = guarded(lambda: FUNCS[fn](args), 4 * timeout)
            except CallTimeout:
                if not (fn == "wop" and str(args.get("fn", "")).split(".")[0] in ("determinize", "min_det")):
                    _TIMEOUTS[0] += 1      # (a diverging determinisation is out of domain, not a hang)
                raise
    except OutOfModelRange:
        e = {"op": fn, "skip": "numeric-range"}      # (a weight beyond the model's number range: counted, not judged)
    except MachineryError:
        raise
    except CallTimeout:
        e = {"op": fn, "sr": srmodel(args.get("sr", "Bool")), "exc": "Timeout"}
        if fn == "wop" and args.get("fn") in ("determinize", "min_det"):
            # C13 speaks about determinisation "whenever it terminates": no answer within the time-out
            # puts the input outside the property's domain; it is counted, not judged
            e["skip"] = "determinization-did-not-terminate-in-time"
    except Exception as ex:  # noqa: BLE001
        e = {"op": fn, "sr": srmodel(args.get("sr", "Bool")), "exc": type(ex).__name__, "note": str(ex)[:200]}
        if (isinstance(ex, (OverflowError, MemoryError)) and fn == "wop"
                and str(args.get("fn", "")).split(".")[0] in ("determinize", "min_det")):
            # a diverging subset construction (weights that grow without bound) ends in a numeric overflow before the
            # time-out: the same out-of-domain case as a time-out
            e["skip"] = "determinization-did-not-terminate-in-time"
    e["call"] = call
    e["site"] = site or fn
    if feat:
        e["feat"] = feat
    if e.get("sr") in ("Rat", "MaxTimes") and "out" in e and not numeric_ok(e["out"]):
        # the code's exact output has numerators/denominators beyond what 32-bit TLC arithmetic can combine
        e["skip"] = "numeric-range"
    return e


def intsyms(x):
    """The same call over an alphabet of integer token ids: a -> 0, b -> 1 (0 is falsy, like epsilon '')."""
    if isinstance(x, str):
        return {"a": "<0>", "b": "<3>"}.get(x, x)
    if isinstance(x, list):
        return [intsyms(y) for y in x]
    if isinstance(x, dict):
        return {k: intsyms(v) for k, v in x.items()}
    return x


def variant_event(rng, p=0.15, skip=()):
    """event() that re-spells a fraction of the calls over integer symbols."""
    def ev(fn, args, site=None, feat=None, timeout=30):
        if fn not in skip and rng.random() < p:
            args = intsyms(args)
            feat = (feat or "plain") + "+int-symbols"
        return event(fn, args, site=site, feat=feat, timeout=timeout)
    return ev


def numeric_ok(M, lim=2048):
    for key in ("I", "F", "arcs"):
        for r in M.get(key, []):
            w = r[-1]
            if isinstance(w, list) and (len(w) == 3 or abs(w[0]) > lim or w[1] > lim):
                return False          # (a 3-element weight is a float recorded in fixed point: not an exact machine)
    for r in M.get("rules", []):
        w = r["w"]
        if isinstance(w, list) and (len(w) == 3 or abs(w[0]) > lim or w[1] > lim):
            return False
    return True


# ---------------------------------------------------------------------------
# random machines


def rand_wfsa(rng, srname, nS=3, narcs=5, labels=("a", "b", ""), eps_acyclic=False, acyclic=False, eps_loop=0.0):
    from families import weights_for
    R = SR[srname]
    ws = [enc_w(R, us.mk(R, w)) for w in weights_for(R)]
    S = list(range(nS))
    M = {"n": nS, "I": [[0, rng.choice(ws)]], "F": [], "arcs": []}
    if rng.random() < 0.3:
        M["I"].append([rng.choice(S), rng.choice(ws)])
    for _ in range(rng.randint(1, 2)):
        M["F"].append([rng.choice(S), rng.choice(ws)])
    for _ in range(rng.randint(1, narcs)):
        a = rng.choice(labels)
        i, j = rng.choice(S), rng.choice(S)
        if acyclic or (eps_acyclic and a == ""):
            if i == j:
                continue
            i, j = min(i, j), max(i, j)
        M["arcs"].append([i, a, j, rng.choice(ws)])
    if rng.random() < eps_loop:
        # an epsilon self-loop of weight < 1 (its geometric series converges): the only epsilon cycle of the machine
        q = rng.choice([r[0] for r in M["arcs"]] + [r[2] for r in M["arcs"]] + [M["I"][0][0]])
        M["arcs"].append([q, "", q, enc_w(R, us.mk(R, rng.choice([Fraction(1, 2), Fraction(1, 4)])))])
    return M


def rand_fst(rng, srname, nS=3, narcs=5, ins=("a", "b", ""), outs=("a", "b", ""), acyclic=False):
    from families import weights_for
    R = SR[srname]
    ws = [enc_w(R, us.mk(R, w)) for w in weights_for(R)]
    S = list(range(nS))
    T = {"n": nS, "I": [[0, rng.choice(ws)]], "F": [], "arcs": []}
    if rng.random() < 0.3:
        T["I"].append([rng.choice(S), rng.choice(ws)])
    for _ in range(rng.randint(1, 2)):
        T["F"].append([rng.choice(S), rng.choice(ws)])
    for _ in range(rng.randint(1, narcs)):
        a, b = rng.choice(ins), rng.choice(outs)
        i, j = rng.choice(S), rng.choice(S)
        if acyclic:
            if i == j:
                continue
            i, j = min(i, j), max(i, j)
        T["arcs"].append([i, a, b, j, rng.choice(ws)])
    return T


def afeat(M):
    n_eps = sum(1 for r in M["arcs"] if r[1] == "" and (len(r) == 4 or r[2] == ""))
    loops = any(r[0] == r[-2] for r in M["arcs"])
    f = []
    if n_eps:
        f.append("eps")
    if any(r[0] == r[-2] and r[1] == "" for r in M["arcs"]):
        f.append("eps-selfloop")
    elif loops:
        f.append("cycle")
    if len(M["I"]) > 1:
        f.append("multi-init")
    if len(M["F"]) > 1:
        f.append("multi-final")
    if any(q == M["I"][0][0] for q, _ in M["F"]):
        f.append("init-final")
    return "+".join(f) or "plain"


def tlc_automata(shard, nshards, every=1):
    """The slice of the TLC-enumerated exhaustive automaton family (MCAutomata.tla) this generator process replays."""
    import json
    import os
    path = os.environ.get("VERIF_AFAMILY")
    if not path:
        return []
    fam = json.load(open(path))
    return [M for i, M in enumerate(fam) if i % nshards == shard and (i // nshards) % every == 0]
