"""Tiny parser for TLA+ values as TLC prints them (sets, tuples, strings, integers, records,
functions written with :> and @@) and for `-dump dot,actionlabels` state graphs."""
import collections
import re


def parse_val(s):
    s = s.strip()
    pos = 0

    def ws():
        nonlocal pos
        while pos < len(s) and s[pos].isspace():
            pos += 1

    def val():
        nonlocal pos
        ws()
        if s.startswith("<<", pos):
            pos += 2
            out = []
            ws()
            while not s.startswith(">>", pos):
                out.append(val())
                ws()
                if s[pos] == ",":
                    pos += 1
                ws()
            pos += 2
            return tuple(out)
        if s[pos] == "{":
            pos += 1
            out = []
            ws()
            while s[pos] != "}":
                out.append(val())
                ws()
                if s[pos] == ",":
                    pos += 1
                ws()
            pos += 1
            return frozenset(out)
        if s[pos] == "[":
            pos += 1
            out = {}
            ws()
            while s[pos] != "]":
                m = re.match(r"(\w+)\s*\|->", s[pos:])
                pos += m.end()
                out[m.group(1)] = val()
                ws()
                if s[pos] == ",":
                    pos += 1
                ws()
            pos += 1
            return tuple(sorted(out.items()))
        if s[pos] == '"':
            e = pos + 1
            while s[e] != '"':
                e += 2 if s[e] == "\\" else 1
            v = s[pos + 1:e].replace('\\"', '"').replace("\\\\", "\\")
            pos = e + 1
            return v
        if s.startswith("TRUE", pos):
            pos += 4
            return True
        if s.startswith("FALSE", pos):
            pos += 5
            return False
        m = re.match(r"-?\d+", s[pos:])
        pos += m.end()
        return int(m.group())

    return val()


def parse_dot(txt, var_names):
    """Returns (nodes: id -> {var: value}, edges: [(src, dst, action, arg)])."""
    nodes = {}
    for m in re.finditer(r'^(-?\d+) \[label="((?:[^"\\]|\\.)*)"', txt, re.M):
        lab = m.group(2).replace("\\n", "\n").replace('\\"', '"').replace("\\\\", "\\")
        st = {}
        parts = [p for p in re.split(r"(?:^|\n)/\\ ", lab) if p.strip()]
        for part in parts:
            k, v = part.split(" = ", 1)
            st[k.strip()] = parse_val(v)
        nodes[m.group(1)] = st
    edges = []
    for a, b, l in re.findall(r'^(-?\d+) -> (-?\d+) \[label="((?:[^"\\]|\\.)*)"', txt, re.M):
        l = l.replace('\\"', '"').replace("\\\\", "\\")
        mm = re.match(r"(\w+)(?:\((.*)\))?$", l)
        edges.append((a, b, mm.group(1), parse_val(mm.group(2)) if mm.group(2) else None))
    return nodes, edges


def shortest_paths(init, edges, allowed=None):
    adj = collections.defaultdict(list)
    for a, b, act, arg in edges:
        if allowed is None or act in allowed:
            adj[a].append((b, act, arg))
    path = {init: []}
    dq = collections.deque([init])
    while dq:
        u = dq.popleft()
        for v, act, arg in adj[u]:
            if v not in path:
                path[v] = path[u] + [(act, arg)]
                dq.append(v)
    return path
