"""Regex (C18) and Lark (C19) front-end operations on the real code."""
import itertools
import re as pyre
import warnings

from common import MachineryError
from project import OutOfModelRange
from gops import guarded, CallTimeout
from project import tname, enc_rat, cfg_proj
import aops

CHARS = ["a", "b", "c", "A", "B", "x", "s", "S", "k", "0", "ß", "é", "É", "ü", "K"]   # 'K' = KELVIN SIGN folds to k


def rand_re(rng, chars, d=0, ci_ok=True):
    k = rng.random()
    if d >= 3 or k < 0.3:
        t = rng.choice(["lit", "lit", "cls", "ncls", "dot"])
        if t == "lit":
            return {"t": "lit", "c": rng.choice(chars)}
        if t in ("cls", "ncls"):
            return {"t": t, "cs": rng.sample(chars, rng.randint(1, 2))}
        return {"t": "dot"}
    if k < 0.5:
        return {"t": "cat", "l": rand_re(rng, chars, d + 1, ci_ok), "r": rand_re(rng, chars, d + 1, ci_ok)}
    if k < 0.65:
        return {"t": "alt", "l": rand_re(rng, chars, d + 1, ci_ok), "r": rand_re(rng, chars, d + 1, ci_ok)}
    if k < 0.73:
        return {"t": "star", "e": rand_re(rng, chars, d + 1, ci_ok)}
    if k < 0.80:
        return {"t": "plus", "e": rand_re(rng, chars, d + 1, ci_ok)}
    if k < 0.87:
        return {"t": "opt", "e": rand_re(rng, chars, d + 1, ci_ok)}
    if k < 0.93 or not ci_ok:
        m = rng.randint(0, 1)
        return {"t": "rep", "e": rand_re(rng, chars, d + 1, ci_ok), "m": m, "n": rng.randint(max(m, 1), 2)}
    return {"t": "ci", "e": rand_re(rng, chars, d + 1, False)}


def esc(c):
    """A character inside a pattern; control characters (NUL!) in \\xhh form - the grammar loader takes no raw ones."""
    return "".join("\\x%02x" % ord(x) if ord(x) < 32 else pyre.escape(x) for x in c)


def show(r):
    t = r["t"]
    if t == "lit":
        return esc(r["c"])
    if t == "cls":
        return "[" + "".join(esc(c) for c in r["cs"]) + "]"
    if t == "ncls":
        return "[^" + "".join(esc(c) for c in r["cs"]) + "]"
    if t == "dot":
        return "."
    if t == "cat":
        return "(?:" + show(r["l"]) + ")(?:" + show(r["r"]) + ")"
    if t == "alt":
        return "(?:" + show(r["l"]) + "|" + show(r["r"]) + ")"
    if t == "star":
        return "(?:" + show(r["e"]) + ")*"
    if t == "plus":
        return "(?:" + show(r["e"]) + ")+"
    if t == "opt":
        return "(?:" + show(r["e"]) + ")?"
    if t == "rep":
        return "(?:" + show(r["e"]) + "){%d,%d}" % (r["m"], r["n"])
    if t == "ci":
        return "(?i:" + show(r["e"]) + ")"
    raise ValueError(t)


def chars_of(r):
    t = r["t"]
    if t == "lit":
        return {r["c"]}
    if t in ("cls", "ncls"):
        return set(r["cs"])
    if t == "dot":
        return set()
    out = set()
    for k in ("l", "r", "e"):
        if k in r:
            out |= chars_of(r[k])
    return out


def name_re(r):
    """The same AST with characters replaced by their model names."""
    r = dict(r)
    if "c" in r:
        r["c"] = tname(r["c"])
    if "cs" in r:
        r["cs"] = [tname(c) for c in r["cs"]]
    for k in ("l", "r", "e"):
        if k in r:
            r[k] = name_re(r[k])
    return r


def f_regex(a):
    from genlm.grammar.lark_interface import interegular_to_wfsa
    r, cs, L = a["re"], a["cs"], a["L"]
    pat = show(r)
    charset = set(cs)
    with warnings.catch_warnings():
        warnings.simplefilter("ignore")
        for w in a.get("warm", ()):         # earlier conversions with the SAME character-set object
            interegular_to_wfsa(show(w), charset=charset)
        m = interegular_to_wfsa(pat, charset=charset)
    if charset != set(cs):
        raise AssertionError("interegular_to_wfsa changed the character set it was given")
    for op in a.get("used", ()):            # the automaton is used as an operand before it is inspected: it stays itself
        if op in ("kleene_plus", "star"):
            getattr(m, op)()
        elif op == "add":
            m + m
        elif op == "mul":
            m * m
        elif op == "min":
            m.min
        elif op == "epsremove":
            m.epsremove
        elif op == "to_bytes":
            m.to_bytes()
    strs = [p for n in range(L + 1) for p in itertools.product(cs, repeat=n)]
    acc = [[tname(c) for c in s] for s in strs if m(s) > 0]
    re_acc = [[tname(c) for c in s] for s in strs if pyre.fullmatch(pat, "".join(s))]
    universe = sorted(set(cs) | chars_of(r))
    fold = [[tname(c), [tname(x) for x in universe if x != c and pyre.fullmatch("(?i:" + pyre.escape(c) + ")", x)]]
            for c in universe]
    M = aops.wfsa_proj(m)
    extra = {}
    if a.get("long"):
        # a long walk through the automaton's own arcs, stopped at a final state when one is reached late enough
        nm = aops._index(m)
        byname = {v: k for k, v in nm.items()}
        finals = {q for q, _ in M["F"]}
        q, walk = (M["I"][0][0] if M["I"] else None), []
        k = 0
        while q is not None and len(walk) < a["long"] + 15:
            outs = sorted([x for x in M["arcs"] if x[0] == q], key=lambda x: (x[1], x[2]))
            if not outs or (len(walk) >= a["long"] and q in finals):
                break
            arc = outs[(k * k + k // 3) % len(outs)]
            k += 1
            walk.append(arc[1])
            q = arc[2]
        if a.get("spoil") and walk:
            walk[len(walk) // 2] = tname(cs[0]) if walk[len(walk) // 2] != tname(cs[0]) else tname(cs[-1])
        from gops import unt
        extra = {"long": walk, "longpos": int(m(tuple(unt(c) for c in walk)) > 0)}
    return {**extra, "op": "regex", "pat": pat, "re": name_re(r), "cs": [tname(c) for c in cs], "fold": fold, "L": L, "acc": acc,
            "re_acc": re_acc, "M": M}


FUNCS = {"regex": f_regex}


def event(fn, args, site=None, feat=None, timeout=30):
    call = {"fn": fn, "args": args}
    try:
        try:
            e = guarded(lambda: FUNCS[fn](args), timeout)
        except CallTimeout:
            # a slow machine must not look like a hanging library: one more attempt with four times the budget
            e = guarded(lambda: FUNCS[fn](args), 4 * timeout)
    except OutOfModelRange:
        e = {"op": fn, "skip": "numeric-range"}      # (a weight beyond the model's number range: counted, not judged)
    except MachineryError:
        raise
    except CallTimeout:
        e = {"op": fn, "exc": "Timeout"}
    except Exception as ex:  # noqa: BLE001
        e = {"op": fn, "exc": type(ex).__name__, "note": str(ex)[:300]}
    e["call"] = call
    e["site"] = site or fn
    if feat:
        e["feat"] = feat
    return e


def refeat(r):
    ops = set()

    def walk(x):
        ops.add(x["t"])
        for k in ("l", "r", "e"):
            if k in x:
                walk(x[k])
    walk(r)
    f = [t for t in ("ncls", "dot", "star", "plus", "rep", "ci") if t in ops]
    return "+".join(f) or "plain"


# ---------------------------------------------------------------------------
# C19: Lark grammars

def rand_term_re(rng, chars, d=0):
    """A (mostly non-nullable) terminal pattern."""
    k = rng.random()
    if d >= 2 or k < 0.35:
        t = rng.choice(["lit", "lit", "cls", "ncls", "dot"])
        if t == "lit":
            return {"t": "lit", "c": rng.choice(chars)}
        if t in ("cls", "ncls"):
            return {"t": t, "cs": rng.sample(chars, rng.randint(1, 2))}
        return {"t": "dot"}
    if k < 0.6:
        return {"t": "cat", "l": rand_term_re(rng, chars, d + 1), "r": rand_term_re(rng, chars, d + 1)}
    if k < 0.8:
        return {"t": "alt", "l": rand_term_re(rng, chars, d + 1), "r": rand_term_re(rng, chars, d + 1)}
    if k < 0.87:
        return {"t": "plus", "e": rand_term_re(rng, chars, d + 1)}
    if k < 0.94:
        # a loop in front of a non-nullable tail, e.g. (ab)*ac: acceptance only through states visited earlier
        return {"t": "cat", "l": {"t": "star", "e": rand_term_re(rng, chars, d + 1)}, "r": rand_term_re(rng, chars, d + 1)}
    return {"t": "cat", "l": rand_term_re(rng, chars, d + 1), "r": {"t": "opt", "e": rand_term_re(rng, chars, d + 1)}}


def rand_lark(rng, cs):
    tnames = ["A", "B", "C"][: rng.choice([1, 2, 2, 3])]
    terms = []
    for t in tnames:
        if rng.random() < 0.3:
            lit = [rng.choice(cs) for _ in range(rng.randint(1, 2))]
            r = {"t": "lit", "c": lit[0]} if len(lit) == 1 else {"t": "cat", "l": {"t": "lit", "c": lit[0]}, "r": {"t": "lit", "c": lit[1]}}
            terms.append({"name": t, "re": r, "lit": "".join(lit), "ci": rng.random() < 0.3})
        else:
            terms.append({"name": t, "re": rand_term_re(rng, cs), "ci": rng.random() < 0.15})
    ignore = []
    if rng.random() < 0.5:
        terms.append({"name": "WS", "re": {"t": "plus", "e": {"t": "lit", "c": cs[-1]}}, "ci": False})
        ignore = ["WS"]
    rnames = ["start"] + ["x", "y"][: rng.choice([0, 1, 1, 2])]
    syms = tnames + rnames[1:] + (["start"] if rng.random() < 0.2 else []) + (["WS"] if ignore and rng.random() < 0.2 else [])
    rules = []
    for h in rnames:
        alts = []
        for _ in range(rng.choice([1, 2, 2])):
            alt = [{"s": rng.choice(syms), "op": rng.choice(["", "", "", "?", "*", "+"])} for _ in range(rng.randint(1, 3))]
            alts.append(alt)
        if h != "start" or True:
            # make sure every rule has a terminal-only alternative so that the language is rarely empty
            alts.append([{"s": rng.choice(tnames), "op": ""}])
        rules.append({"h": h, "alts": alts})
    return {"start": "start", "rules": rules, "terms": terms, "ignore": ignore}


def lark_text(LG):
    lines = []
    for r in LG["rules"]:
        lines.append(f"{r['h']}: " + " | ".join(" ".join(y["s"] + y["op"] for y in alt) for alt in r["alts"]))
    for t in LG["terms"]:
        if "lit" in t:
            lit = "".join("\\x%02x" % ord(x) if ord(x) < 32 else x for x in t["lit"])
            lines.append(f'{t["name"]}: "{lit}"' + ("i" if t["ci"] else ""))
        else:
            lines.append(f'{t["name"]}: /{show(t["re"])}/' + ("i" if t["ci"] else ""))
    for t in LG["ignore"]:
        lines.append(f"%ignore {t}")
    return "\n".join(lines) + "\n"


def model_lark(LG):
    """The grammar as the specification sees it (characters named, ci folded into the regex tree)."""
    return {"start": LG["start"],
            "rules": [{"h": r["h"], "alts": [[{"s": y["s"], "op": y["op"]} for y in alt] for alt in r["alts"]]} for r in LG["rules"]],
            "terms": [{"name": t["name"], "re": name_re({"t": "ci", "e": t["re"]} if t["ci"] else t["re"])} for t in LG["terms"]],
            "ignore": LG["ignore"]}


def lark_fold(LG, cs):
    universe = set(cs)
    for t in LG["terms"]:
        universe |= chars_of(t["re"])
    universe = sorted(universe)
    return [[tname(c), [tname(x) for x in universe if x != c and pyre.fullmatch("(?i:" + pyre.escape(c) + ")", x)]]
            for c in universe]


def _stuff(LG):
    from genlm.grammar.lark_interface import LarkStuff
    with warnings.catch_warnings():
        warnings.simplefilter("ignore")
        return LarkStuff(lark_text(LG))


def f_lark(a):
    LG, cs, L = a["LG"], a["cs"], a["L"]
    with warnings.catch_warnings():
        warnings.simplefilter("ignore")
        st = _stuff(LG)
        if a.get("other_first"):          # the same LarkStuff object was already asked for the byte-level grammar
            st.byte_cfg(charset=set(cs))
        if a.get("other_charset"):        # ... or for a grammar relative to ANOTHER character set
            st.char_cfg(charset=set(a["other_charset"]))
        g = st.char_cfg(charset=set(cs), recursion=a.get("recursion", "right"))
    texts = [p for n in range(L + 1) for p in itertools.product(cs, repeat=n)]
    acc = [[tname(c) for c in s] for s in texts if g(s) > 0]
    if len(g.N & g.V) != 0:
        raise AssertionError("terminal and nonterminal names collide")
    return {"op": "lark", "text": lark_text(LG), "LG": model_lark(LG), "cs": [tname(c) for c in cs], "fold": lark_fold(LG, cs),
            "L": L, "acc": acc}


def f_larkbytes(a):
    LG, cs, L = a["LG"], a["cs"], a["L"]
    with warnings.catch_warnings():
        warnings.simplefilter("ignore")
        st = _stuff(LG)
        if a.get("other_first"):          # the same LarkStuff object was already asked for the character-level grammar
            st.char_cfg(charset=set(cs))
        if a.get("other_charset"):
            st.byte_cfg(charset=set(a["other_charset"]))
        g = st.byte_cfg(charset=set(cs))
    bvals = sorted({b for c in cs for b in c.encode("utf-8")})
    cands = [p for n in range(L + 1) for p in itertools.product(bvals, repeat=n)]
    bacc = [list(bs) for bs in cands if g(bs) > 0]
    if len(g.N & g.V) != 0:
        raise AssertionError("terminal and nonterminal names collide")
    return {"op": "larkbytes", "text": lark_text(LG), "LG": model_lark(LG), "cs": [tname(c) for c in cs],
            "fold": lark_fold(LG, cs), "L": L, "cps": [[tname(c), ord(c)] for c in cs], "bacc": bacc}


def f_accepts(a):
    """The produced grammar itself, judged by the oracle (the library's own parser is not trusted here)."""
    LG, cs = a["LG"], a["cs"]
    st = _stuff(LG)
    with warnings.catch_warnings():
        warnings.simplefilter("ignore")
        g = st.byte_cfg(charset=set(cs)) if a["level"] == "byte" else st.char_cfg(charset=set(cs), recursion=a.get("recursion", "right"))
    G, _ = cfg_proj(g.trim())
    G["rules"] = [dict(r, w=1) for r in G["rules"]]
    yes, no = [], []
    for s in a["cands"]:
        t = tuple(s) if a["level"] == "byte" else tuple(s)
        (yes if g(t) > 0 else no).append([tname(x) for x in t])
    out = {"op": "accepts", "text": lark_text(LG), "G": G, "yes": yes, "no": no, "level": a["level"]}
    if a.get("lm"):
        # the same grammar used as a guide: BoolCFGLM(g)(s + eos) is non-zero exactly for the accepted strings
        from genlm.grammar.cfglm import BoolCFGLM, EOS
        lm = BoolCFGLM(g, alg=a["lm"])
        lyes, lno = [], []
        for s in a["cands"][:10]:
            t = tuple(s)
            if all(x in lm.V for x in t):
                (lyes if lm(t + (EOS,)) > 0 else lno).append([tname(x) for x in t])
        out["yes"], out["no"] = yes + lyes, no + lno
    return out


FUNCS.update({"lark": f_lark, "larkbytes": f_larkbytes, "accepts": f_accepts})
